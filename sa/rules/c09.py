"""C09 - every record is well-formed and carries exactly the arguments given."""
from __future__ import annotations

import ast
from typing import Dict, List, Optional, Set, Tuple

from ..canon import Cmp, Poly, to_cmp, to_poly
from ..defuse import is_sym, key, show, strip_norm
from ..engine import Hole, own_walk, split_fields, template_parts
from ..model import AnalysisInconclusive
from .c20 import Atom, dnf
from .common import attr_of_name, call_fname, concrete_devices, is_name, raise_class, stmt_key

EXPLANATION = (
    "C09: every template that reaches a worklist append is enumerated and split into fields; field counts are compared "
    "with the Tecan grammar table (A/D 11 fields, R 16 + exclusion tail, ...); every hole must sit in the slot the grammar "
    "assigns to the value it carries (origin = the validator output / parameter of that name); text holes must be "
    "dominated by a rejection of ';' (and of > 32 characters for rack label/id/type), numeric holes by a type-establishing "
    "guard or conversion, the A/D volume by float() + range guards + two-decimal formatting; the exclusion list is sorted "
    "numerically before it is converted; rejections precede appends; set_diti's guard tests the worklist's own last "
    "record against the break record only. The round trip through an independent parser is not decided."
)
ASSUMPTIONS = ["f-string format specs :.2f / :02d / str() of an int print canonical decimal numbers"]

FIELDS = {"A": 11, "D": 11, "R": 16, "C": 2, "W": 2, "WD": 2, "F": 2, "B": 2, "S": 2}
AD_SLOTS = ["rack_label", "rack_id", "rack_type", "position", "tube_id", "volume", "liquid_class", None, "tip", "forced_rack_type"]
VALIDATOR_ORDER = ["rack_label", "position", "volume", "liquid_class", "tip", "rack_id", "tube_id", "rack_type", "forced_rack_type"]
TEXT32 = {"rack_label", "rack_id", "rack_type"}
TEXT = ["rack_label", "rack_id", "rack_type", "tube_id", "liquid_class", "forced_rack_type"]


def run(ctx) -> None:
    ctx.guard("C09.registry", registry)
    ctx.guard("C09.registry", list_overrides)
    ctx.guard("C09.slots", ad_slots)
    ctx.guard("C09.slots", r_slots)
    ctx.guard("C09.sanitise", validator_text)
    ctx.guard("C09.sanitise", validator_numbers)
    ctx.guard("C09.sanitise", simple_emitters)
    ctx.guard("C09.accepts-valid", accepts_valid)
    from . import c03, c06

    ctx.reuse("C09.reject-clean", c03.validate_before_append, "C03.validate-before-append")
    ctx.reuse("C09.max-volume", c03.step_guard_validator)
    ctx.reuse("C09.max-volume", c03.step_guard_wiring)
    ctx.reuse("C09.multi-disp", c06.multi_disp)
    ctx.reuse("C09.max-volume", c06.config)
    # every worklist class (the deprecated alias included) is configured by the arguments it was given
    from . import c16

    ctx.reuse("C09.modes", c16.override_set)
    # the tip-mask field: numbers 1-8 map to the Tecan mask values and nothing else is accepted
    from . import c10

    ctx.reuse("C09.tip-mask", c10.int_map)
    ctx.reuse("C09.tip-mask", c10.aggregate_records)
    ctx.reuse("C09.tip-mask", c10.any_rules)
    # distribute() is a record-appending method too: the R record carries distribute's own arguments
    from . import c01

    ctx.reuse("C09.slots", c01.pair_distribute, "C01.pair-distribute")
    # transfer() hands the caller's keyword arguments (liquid class, tip, rack ID ...) to both records of a step, and the wash
    # scheme it was given reaches the W record as the integer it names
    from . import c07
    from .common import concrete_devices as _devs

    for dev in _devs(ctx):
        ctx.reuse("C09.slots", c07.step_block, dev)
    ctx.reuse("C09.sanitise", c07.wash_method)
    ctx.guard("C09.diti-switch", diti_switch)
    from . import objmodel

    ctx.guard("C09.max-volume", objmodel.worklist_model, "C09.max-volume")
    # the exclusion list may be any collection of integers, a numpy array included: "none given" is decided by `is None`
    from .common import truthiness_rule

    ctx.guard("C09.slots", truthiness_rule, "C09.slots", ("BaseWorklist.reagent_distribution",), ("exclude_wells",),
              "a numpy array of several wells has no truth value (the valid call raises), and numpy.array([0]) or an array holding one falsy entry counts as 'nothing excluded' - "
              "the R record no longer returns the exclusion list that was supplied")
    ctx.guard("C09.modes", modes)


# --------------------------------------------------------------------------- templates
def _expand(fv, parts: List[object], at: int, depth: int = 0) -> List[object]:
    """Inline holes whose value is itself a template string defined in the same function."""
    out: List[object] = []
    for p in parts:
        if isinstance(p, Hole) and isinstance(p.expr, ast.Name) and depth < 3 and p.spec is None:
            defs = sorted(fv.cfg.reaching()[at].get(p.expr.id, ()))
            vals = []
            for d in defs:
                dn = fv.cfg.nodes[d]
                if dn.kind == "stmt" and isinstance(dn.ast, ast.Assign) and isinstance(dn.ast.value, (ast.JoinedStr, ast.Constant)) and (not isinstance(dn.ast.value, ast.Constant) or isinstance(dn.ast.value.value, str)):
                    vals.append((d, dn.ast.value))
                else:
                    vals = None
                    break
            if vals and len(vals) == 1:
                sub = template_parts(vals[0][1])
                out += _expand(fv, sub, vals[0][0], depth + 1)
                continue
        out.append(p)
    return out


def emit_sites(ctx):
    """(function, fv, append call site, template parts (expanded), kind) for every direct worklist emission."""
    seen = set()
    out = []
    base = ctx.prog.require_class("BaseWorklist", "C09.registry")
    for dev in [base] + concrete_devices(ctx):
        for name in sorted({m for k in ctx.prog.mro(dev) if hasattr(k, "methods") for m in k.methods}):
            f = ctx.prog.find_method(dev, name)
            if f is None or f.qualname in seen or f.qualname in ctx.prog.inlined_helpers:
                continue
            fv = ctx.fv(f, dev if f.cls is not None and f.cls in ctx.prog.mro(dev) else None)
            sites = []
            for cs in fv.calls():
                fn = cs.call.func
                if isinstance(fn, ast.Attribute) and fn.attr in ("append", "extend", "insert") and isinstance(fn.value, ast.Name) and f.params and fn.value.id == f.params[0] and ctx.E.is_worklist_class(fv.env.get(fn.value.id)):
                    sites.append(cs)
            if sites:
                seen.add(f.qualname)
                for cs in sites:
                    arg = cs.call.args[-1]
                    arms = fv.template_arms(arg, cs.node)
                    if arms:
                        for tmpl, at in arms:
                            out.append((f, fv, cs, _expand(fv, template_parts(tmpl), at)))
                        continue
                    parts = template_parts(fv.res.resolve(arg, cs.node))
                    if parts is not None:
                        parts = _expand(fv, parts, cs.node)
                    out.append((f, fv, cs, parts))
    return out


def _kind(parts) -> str:
    from ..engine import template_kind

    prefix = ""
    for p in parts:
        if isinstance(p, str):
            prefix += p
        else:
            break
    return template_kind(prefix)


def registry(ctx) -> None:
    rule = "C09.registry"
    sites = emit_sites(ctx)
    n = 0
    kinds = set()
    for f, fv, cs, parts in sites:
        c = f"{f.qualname}/append[{stmt_key(cs.call.args[-1])[:30]}]"
        w = f.where(cs.call)
        if parts is None:
            # appending a command string computed by a formatter (evo_*): covered by C13.template
            t = fv.res.resolve(cs.call.args[-1], cs.node)
            cal = ctx.prog.resolve_call(f, t, fv.env) if isinstance(t, ast.Call) and not is_sym(t) else None
            if cal is not None and cal.kind == "func" and cal.func.module.name.endswith("evotools.commands"):
                ctx.rep.holds(rule, c, f"script command built by {cal.func.short} (template checked by C13)", where=w)
            else:
                ctx.rep.refuted(rule, c, f"`{stmt_key(cs.call)[:70]}` appends a value that is not a record template or a script command: arbitrary text (possibly several lines) can enter the worklist", where=w)
            continue
        n += 1
        kind = _kind(parts)
        kinds.add(kind)
        consts = "".join(p for p in parts if isinstance(p, str))
        ctx.rep.check("\n" not in consts and "\r" not in consts, rule, c + "/one-line", "one record per line", "the template contains a line break", where=w)
        fields = split_fields(parts, ";")
        if kind not in FIELDS:
            ctx.rep.refuted(rule, c + "/kind", f"record type `{kind}` is not part of the worklist grammar table", where=w)
            continue
        nf = len(fields)
        tail_ok = True
        if kind == "R":
            # 16 fields; the last one is the direction digit followed by the (possibly empty) exclusion tail
            last = fields[-1]
            tail_ok = len(last) == 2 and all(isinstance(p, Hole) for p in last)
        ctx.rep.check(nf == FIELDS[kind] and tail_ok, rule, c + "/fields", f"{kind} record has {FIELDS[kind]} ';'-separated fields",
                      f"the {kind} template has {nf} ';'-separated fields; the Tecan grammar requires {FIELDS[kind]}", where=w)
        if kind in ("W", "WD", "F", "B"):
            holes = [p for p in parts if isinstance(p, Hole)]
            ok = fields[-1] == [] and (len(holes) == (1 if kind == "W" and holes else 0))
            ctx.rep.check(ok, rule, c + "/shape", f"{kind} record is `{kind}[n];`", f"malformed {kind} record template", where=w)
    ctx.rep.floor(rule, "record templates", n, 10)
    need = {"A", "D", "R", "C", "W", "WD", "F", "B", "S"}
    ctx.rep.check(need <= kinds, rule, "registry/kinds", f"all record types present: {sorted(kinds)}", f"record types {sorted(need - kinds)} are no longer emitted by any method")


# ------------------------------------------------------------------------------- slots
def _validator_call(fv, hole_term: ast.AST):
    """§unpack(prepare_aspirate_dispense_parameters(...), i) -> (call, i)"""
    if is_sym(hole_term, "unpack") and isinstance(hole_term.args[0], ast.Call) and call_fname(hole_term.args[0]) == "prepare_aspirate_dispense_parameters":
        return hole_term.args[0], hole_term.args[1].value
    # checked = prepare_aspirate_dispense_parameters(...); rack_label = checked[0]
    if isinstance(hole_term, ast.Subscript) and isinstance(hole_term.slice, ast.Constant) and isinstance(hole_term.slice.value, int) and hole_term.slice.value >= 0 \
            and isinstance(hole_term.value, ast.Call) and not is_sym(hole_term.value) and call_fname(hole_term.value) == "prepare_aspirate_dispense_parameters":
        return hole_term.value, hole_term.slice.value
    return None


def _positional(call: ast.Call) -> List[ast.AST]:
    out = []
    for a in call.args:
        if isinstance(a, ast.Starred) and isinstance(a.value, (ast.Tuple, ast.List)):
            out += list(a.value.elts)
        else:
            out.append(a)
    # arguments given by keyword, in the validator's parameter order
    kws = {k.arg: k.value for k in call.keywords if k.arg}
    for name in VALIDATOR_ORDER[len(out):]:
        if name not in kws:
            break
        out.append(kws[name])
    return out


def ad_slots(ctx) -> None:
    rule = "C09.slots"
    n = 0
    for f, fv, cs, parts in emit_sites(ctx):
        if parts is None or _kind(parts) not in ("A", "D"):
            continue
        n += 1
        fields = split_fields(parts, ";")[1:]
        w = f.where(cs.call)
        for i, want in enumerate(AD_SLOTS):
            c = f"{f.qualname}/slot[{i + 1}:{want or 'tip_type'}]"
            fld = fields[i] if i < len(fields) else None
            if fld is None:
                continue
            if want is None and fld == []:
                ctx.rep.holds(rule, c, "tip type field is empty", where=w)
                continue
            if len(fld) != 1 or not isinstance(fld[0], Hole):
                ctx.rep.refuted(rule, c, f"slot {i + 1} of the {_kind(parts)} record is `{fld}`: not exactly one value", where=w)
                continue
            t = fv.res.resolve(fld[0].expr, cs.node)
            if want is None:
                ctx.rep.check(isinstance(t, ast.Constant) and t.value == "", rule, c, "tip type field is empty", f"tip type field carries `{show(t)}`", where=w)
                continue
            vc = _validator_call(fv, t)
            if vc is None:
                ctx.rep.refuted(rule, c, f"slot `{want}` carries `{show(t)[:60]}`, which did not pass prepare_aspirate_dispense_parameters (unvalidated value in a record)", where=w)
                continue
            call, idx = vc
            ok_idx = idx == VALIDATOR_ORDER.index(want)
            pos = _positional(call)
            j = VALIDATOR_ORDER.index(want)
            arg = pos[j] if j < len(pos) else next((k.value for k in call.keywords if k.arg == want), None)
            ok_arg = arg is not None and is_name(arg, want)
            ctx.rep.check(ok_idx and ok_arg, rule, c, f"slot carries the validated `{want}` argument",
                          f"slot `{want}` carries output #{idx} of the validator fed with `{show(arg) if arg is not None else 'default'}`: the argument `{want}` does not land in its designated field", where=w)
    ctx.rep.floor(rule, "A/D templates", n, 2)
    # the validator returns its parameters in the documented order
    v = ctx.prog.require_func("prepare_aspirate_dispense_parameters", rule)
    vv = ctx.fv(v)
    for rn in [x for x in vv.cfg.nodes if x.kind == "stmt" and isinstance(x.ast, ast.Return) and x.ast.value is not None]:
        val = vv.res.resolve(rn.ast.value, rn.id)
        if not (isinstance(val, ast.Tuple) and len(val.elts) == 9):
            ctx.rep.inconclusive(rule, f"{v.qualname}/return", "validator does not return a 9-tuple", where=v.where(rn.ast))
            continue
        for i, want in enumerate(VALIDATOR_ORDER):
            names = {s.id for s in ast.walk(val.elts[i]) if isinstance(s, ast.Name) and s.id in VALIDATOR_ORDER}
            ok = names == {want}
            ctx.rep.check(ok, rule, f"{v.qualname}/return[{i}:{want}]", f"output {i} is derived from `{want}` only", f"validator output #{i} is derived from {sorted(names)}; expected `{want}`", where=v.where(rn.ast))


def r_slots(ctx) -> None:
    rule = "C09.slots"
    hit = None
    for f, fv, cs, parts in emit_sites(ctx):
        if parts is not None and _kind(parts) == "R":
            hit = (f, fv, cs, parts)
    if hit is None:
        ctx.rep.inconclusive(rule, "R-template", "R record template not found")
        return
    f, fv, cs, parts = hit
    w = f.where(cs.call)
    fields = split_fields(parts, ";")[1:]
    if len(fields) != 15:
        return  # reported by the registry
    want = [("src_rack_label", 0), ("src_rack_id", 5), ("src_rack_type", 7), "src_start", "src_end", ("dst_rack_label", 0), ("dst_rack_id", 5), ("dst_rack_type", 7), "dst_start", "dst_end",
            "volume", ("liquid_class", 3), "diti_reuse", "multi_disp", "direction"]
    for i, spec in enumerate(want):
        name = spec[0] if isinstance(spec, tuple) else spec
        c = f"{f.qualname}/R-slot[{i + 1}:{name}]"
        fld = fields[i]
        holes = [p for p in fld if isinstance(p, Hole)]
        if i < 14 and (len(fld) != 1 or len(holes) != 1):
            ctx.rep.refuted(rule, c, f"slot {i + 1} of the R record is not exactly one value", where=w)
            continue
        h = holes[0]
        # expanded sub-templates were defined at other nodes: resolve the hole where it is written
        at = fv.node_of(h.expr) if id(h.expr) in fv._expr_node else cs.node
        t = fv.res.resolve(h.expr, at)
        if isinstance(spec, tuple):
            vc = _validator_call(fv, t)
            ok = False
            detail = f"`{show(t)[:60]}` did not pass the validator"
            if vc is not None:
                call, idx = vc
                pos = _positional(call)
                arg = pos[spec[1]] if spec[1] < len(pos) else None
                ok = idx == spec[1] and arg is not None and is_name(arg, name)
                detail = f"validator output #{idx} fed with `{show(arg) if arg is not None else None}`"
            ctx.rep.check(ok, rule, c, f"slot carries the validated `{name}`", f"R slot `{name}` carries {detail}: the argument does not land in its designated field or is unvalidated", where=w)
        elif name == "direction":
            if is_sym(t, "phi") and isinstance(h.expr, ast.Name):
                # if direction == "left_to_right": d = 0 / else: d = 1   - the statement form of the conditional expression
                alts_ = fv.alternatives(h.expr, cs.node)
                if len(alts_) == 2:
                    # conditions common to both alternatives (guards passed on the way) do not distinguish them
                    common = {(key(r_), p_) for r_, p_ in alts_[0][0]} & {(key(r_), p_) for r_, p_ in alts_[1][0]}
                    alts_ = [([(r_, p_) for r_, p_ in cd if (key(r_), p_) not in common], v_) for cd, v_ in alts_]
                if len(alts_) == 2 and all(len(cd) == 1 for cd, _v in alts_):
                    (c0, p0), v0 = alts_[0][0][0], alts_[0][1]
                    (c1, p1), v1 = alts_[1][0][0], alts_[1][1]
                    if key(c0) == key(c1) and p0 != p1:
                        t = ast.IfExp(test=c0, body=v0 if p0 else v1, orelse=v1 if p0 else v0)
            ok = isinstance(t, ast.IfExp) and isinstance(t.test, ast.Compare) and is_name(t.test.left, "direction") and isinstance(t.test.comparators[0], ast.Constant)
            if ok:
                lit = t.test.comparators[0].value
                a, b = t.body, t.orelse
                ok = isinstance(a, ast.Constant) and isinstance(b, ast.Constant) and ((lit == "left_to_right" and (a.value, b.value) == (0, 1)) or (lit == "right_to_left" and (a.value, b.value) == (1, 0)))
            if not ok and isinstance(t, ast.Subscript) and isinstance(t.value, ast.Dict) and is_name(t.slice, "direction"):
                # table lookup: {"left_to_right": 0, "right_to_left": 1}[direction]
                table = {k.value: v.value for k, v in zip(t.value.keys, t.value.values) if isinstance(k, ast.Constant) and isinstance(v, ast.Constant)}
                ok = table == {"left_to_right": 0, "right_to_left": 1} and len(t.value.keys) == 2
            ctx.rep.check(ok, rule, c, "direction digit: left_to_right -> 0, right_to_left -> 1", f"direction field is `{show(t)[:60]}`", where=w)
        elif name == "multi_disp":
            names = {s.id for s in ast.walk(t) if isinstance(s, ast.Name)}
            ctx.rep.check("multi_disp" in names, rule, c, "slot carries multi_disp (possibly reduced)", f"multi_disp field carries `{show(t)[:60]}`", where=w)
        else:
            plain = h.spec in (None, "") and h.conversion in (-1, 115)
            ctx.rep.check(is_name(t, name) and plain, rule, c, f"slot carries the `{name}` argument",
                          f"R slot `{name}` carries `{show(t)[:60]}`" + (f" formatted with `:{h.spec}`: the record no longer returns the value that was supplied (e.g. `:g` keeps six significant digits and "
                                                                         "switches to exponent notation)" if not plain else ""), where=w)
    # exclusion tail: ';' + ';'.join(map(str, sorted(list))) of the validated list, empty when nothing is excluded
    tail = [p for p in fields[-1] if isinstance(p, Hole)]
    ex = tail[-1] if len(tail) == 2 else None
    ok = False
    detail = "exclusion tail not found"
    vals: List[ast.AST] = []
    if ex is not None:
        t = fv.res.resolve(ex.expr, cs.node)
        if is_sym(t, "alt") or is_sym(t, "phi"):
            vals = list(t.args)
        elif isinstance(ex.expr, ast.Name):
            for d in sorted(fv.cfg.reaching()[cs.node].get(ex.expr.id, ())):
                dn = fv.cfg.nodes[d]
                if dn.kind == "stmt" and isinstance(dn.ast, ast.Assign):
                    vals.append(fv.res.resolve(dn.ast.value, d))
    empties = [v for v in vals if isinstance(v, ast.Constant) and v.value == ""]
    joins = [v for v in vals if not isinstance(v, ast.Constant)]
    if len(empties) == 1 and len(joins) == 1:
        j = joins[0]
        if isinstance(j, ast.JoinedStr) and len(j.values) == 2 and isinstance(j.values[0], ast.Constant) and isinstance(j.values[1], ast.FormattedValue) \
                and j.values[1].conversion == -1 and j.values[1].format_spec is None:
            # f";{X}" is the concatenation ";" + X (sa/inline.py reads string concatenations as f-strings)
            j = ast.BinOp(left=j.values[0], op=ast.Add(), right=j.values[1].value)
        detail = f"exclusion tail is `{show(j)[:80]}`"
        if isinstance(j, ast.Call) and call_fname(j) == "join" and isinstance(j.func.value, ast.Constant) and j.func.value.value == "" and len(j.args) == 1 and is_sym(j.args[0], "comp") \
                and len(j.args[0].args) >= 3 and is_sym(j.args[0].args[2], "gen"):
            # "".join(";" + str(n) for n in sorted(numbers)): every number is preceded by its separator
            elt, seq = j.args[0].args[1], j.args[0].args[2].args[0]
            pieces = template_parts(elt) if isinstance(elt, (ast.JoinedStr, ast.Constant)) else None
            if pieces and len(pieces) == 2 and pieces[0] == ";" and isinstance(pieces[1], Hole) and is_sym(pieces[1].expr, "elem") and (pieces[1].spec in (None, "")):
                if isinstance(seq, ast.Call) and call_fname(seq) == "sorted" and not seq.keywords:
                    ok = True
                    detail = f"exclusions come from `{show(seq.args[0])[:50]}`"
                else:
                    detail = f"the exclusion list is `{show(seq)[:70]}`: it must be sorted as numbers before being converted to text (a text sort orders 10 before 9)"
        if isinstance(j, ast.BinOp) and isinstance(j.op, ast.Add) and isinstance(j.left, ast.Constant) and j.left.value == ";" and isinstance(j.right, ast.Call) and call_fname(j.right) == "join" \
                and isinstance(j.right.func.value, ast.Constant) and j.right.func.value.value == ";":
            inner = j.right.args[0]
            seq = None
            if isinstance(inner, ast.Call) and call_fname(inner) == "map" and len(inner.args) == 2 and is_name(inner.args[0], "str"):
                seq = inner.args[1]
            elif is_sym(inner, "comp") and call_fname(inner.args[1]) == "str" and is_sym(inner.args[2], "gen"):
                seq = inner.args[2].args[0]
            if seq is not None and isinstance(seq, ast.Call) and call_fname(seq) == "sorted" and not seq.keywords:
                ok = True
                detail = f"exclusions come from `{show(seq.args[0])[:50]}`"
            elif seq is not None:
                detail = f"the exclusion list is `{show(inner)[:70]}`: it must be sorted as numbers before being converted to text (a text sort orders 10 before 9)"
    ctx.rep.check(ok, rule, f"{f.qualname}/R-exclusions", "exclusion tail = ';' + ';'.join(str(n) for n in sorted(numbers)), empty when nothing is excluded", detail, where=w)
    # ... and the tail is left empty only when the list is empty (one excluded well is a list of length 1)
    if ex is not None and isinstance(ex.expr, ast.Name):
        for d in sorted(fv.cfg.reaching()[cs.node].get(ex.expr.id, ())):
            dn = fv.cfg.nodes[d]
            if not (dn.kind == "stmt" and isinstance(dn.ast, ast.Assign) and isinstance(dn.ast.value, ast.Constant) and dn.ast.value.value == ""):
                continue
            conds = fv.atoms_at(d, skip_raising=True)
            empty_ok = False
            shown = ""
            if not conds:
                # `tail = ""` up front, overwritten under a condition: the tail stays empty exactly when that condition is false
                others = [d2 for d2 in sorted(fv.cfg.reaching()[cs.node].get(ex.expr.id, ())) if d2 != d and fv.cfg.dominates(d, d2)]
                if len(others) == 1:
                    conds = [(r_, not p_, b_) for r_, p_, b_ in fv.atoms_at(others[0], skip_raising=True)]
                    if len(conds) != 1:
                        conds = []
            for r, pol, br in conds:
                cm = to_cmp(r, pol)
                lens = [x for x in ast.walk(r) if isinstance(x, ast.Call) and call_fname(x) == "len"]
                if cm is not None and len(lens) == 1:
                    L = Poly.symbol(lens[0])
                    shown = cm.pretty()
                    if cm in (Cmp(-L, ">="), Cmp(L, "=="), Cmp(Poly.const(1) - L, ">")):
                        empty_ok = True
                elif isinstance(r, ast.Name) and not pol:
                    empty_ok = True
                elif not pol and not isinstance(r, (ast.Compare, ast.BoolOp)) and any(isinstance(x, ast.Name) and x.id in ("exclude_wells", "exclude_list") for x in ast.walk(r)) \
                        and not any(isinstance(x, ast.Call) and call_fname(x) not in ("list", "tuple", "sorted", "set") for x in ast.walk(r) if not is_sym(x)):
                    empty_ok = True  # the truth value of the (converted) exclusion list itself
            ctx.rep.check(empty_ok, rule, f"{f.qualname}/R-exclusions-empty", "the exclusion tail is empty only for an empty exclusion list",
                          f"the exclusion tail is left empty under `{shown or 'an unrecognised condition'}`, which is not 'no well is excluded': a non-empty exclusion list is dropped "
                          "from the record and the robot dispenses into wells that were excluded", where=f.where(dn.ast))
    # excluded wells must lie in the destination range; direction must be one of the two literals
    ok_sub = ok_dir = False
    for term, n, cls in _raising_terms_all(fv, cs.node):
        if cls != "ValueError":
            continue
        for a in term:
            txt = show(a.expr).replace(" ", "")
            if "difference" in txt and "range(dst_start,dst_end+1)" in txt and a.pol:
                ok_sub = True
            core = a.expr
            if len(term) == 1 and isinstance(core, ast.Compare) and is_name(core.left, "direction") and isinstance(core.comparators[0], (ast.Set, ast.Tuple, ast.List, ast.Dict)):
                coll = core.comparators[0]
                vals_ = {e.value for e in (coll.keys if isinstance(coll, ast.Dict) else coll.elts) if isinstance(e, ast.Constant)}
                ok_dir = vals_ == {"left_to_right", "right_to_left"} and (isinstance(core.ops[0], ast.NotIn) == a.pol)
    ctx.rep.check(ok_sub, rule, f"{f.qualname}/R-exclusion-range", "excluded wells outside [dst_start, dst_end] raise ValueError", "excluded wells are not checked against range(dst_start, dst_end + 1)", where=w)
    ctx.rep.check(ok_dir, rule, f"{f.qualname}/R-direction-guard", "any other direction raises ValueError", "the direction is not restricted to the two literals before the record is built", where=w)


# ---------------------------------------------------------------------------- sanitise
def _raising_terms_all(fv, before: Optional[int] = None):
    """(term atoms, guard node, exception class) incl. guards inside new helper functions (see sa/guards.py)."""
    from ..guards import raising_terms

    return raising_terms(fv, before)


def _str_checks(terms, var: str) -> Dict[str, bool]:
    got = {"type": False, "sep": False, "len32": False}
    for term, n, cls in terms:
        if cls != "ValueError" or len(term) != 1:
            continue
        a = term[0]
        if a.kind == "isinstance" and a.var == var and not a.pol and a.types == ["str"]:
            got["type"] = True
        e = a.expr
        if isinstance(e, ast.Compare) and len(e.ops) == 1 and ((isinstance(e.ops[0], ast.In) and a.pol) or (isinstance(e.ops[0], ast.NotIn) and not a.pol)) \
                and isinstance(e.left, ast.Constant) and e.left.value == ";" and is_name(e.comparators[0], var):
            got["sep"] = True
        if a.kind == "cmp" and a.cmp is not None:
            ln = Poly.symbol(ast.Call(func=ast.Name(id="len", ctx=ast.Load()), args=[ast.Name(id=var, ctx=ast.Load())], keywords=[]))
            if a.cmp == Cmp(ln - Poly.const(32), ">") or a.cmp == Cmp(ln - Poly.const(33), ">="):
                got["len32"] = True
    return got


def validator_text(ctx) -> None:
    rule = "C09.sanitise"
    v = ctx.prog.require_func("prepare_aspirate_dispense_parameters", rule)
    fv = ctx.fv(v)
    rets = [n for n in fv.cfg.nodes if n.kind == "stmt" and isinstance(n.ast, ast.Return) and n.ast.value is not None]
    if not rets:
        raise AnalysisInconclusive(rule, v.qualname, "no return")
    terms = _raising_terms_all(fv, rets[0].id)
    for var in TEXT:
        got = _str_checks(terms, var)
        c = f"{v.qualname}/{var}"
        ctx.rep.check(got["sep"], rule, c + "/separator", f"';' in {var} raises ValueError", f"`{var}` reaches a record without a rejection of ';': a separator inside the text adds a field to the record", where=v.where())
        ctx.rep.check(got["type"], rule, c + "/type", f"non-str {var} raises ValueError", f"`{var}` is not type-checked (isinstance str)", where=v.where())
        if var in TEXT32:
            ctx.rep.check(got["len32"], rule, c + "/length", f"{var} longer than 32 characters raises ValueError", f"`{var}` longer than 32 characters is not rejected", where=v.where())


def list_overrides(ctx) -> None:
    """Records reach the worklist as they were formatted: the worklist classes do not redefine the list operations the
    emitters use (append / extend / insert / +=) - or, if they do, they hand the record to the list unchanged."""
    rule = "C09.registry"
    base = ctx.prog.require_class("BaseWorklist", rule)
    n = 0
    for m in ctx.prog.modules.values():
        for cls in m.classes.values():
            if base not in ctx.prog.mro(cls):
                continue
            n += 1
            for name in ("append", "extend", "insert", "__iadd__", "__setitem__", "__add__"):
                f = cls.methods.get(name)
                if f is None:
                    continue
                ctx.rep.touch(f)
                fv = ctx.fv(f, cls)
                c = f"{cls.name}.{name}"
                sup = [cs for cs in fv.calls() if isinstance(cs.call.func, ast.Attribute) and cs.call.func.attr == name and isinstance(cs.call.func.value, ast.Call) and call_fname(cs.call.func.value) == "super"]
                rec_params = [p for p in f.params[1:]]
                unchanged = len(sup) == 1 and sup[0].call.args and all(is_name(fv.res.resolve(a, sup[0].node), p) for a, p in zip(sup[0].call.args, rec_params))
                always = len(sup) == 1 and fv.cfg.dominates(sup[0].node, fv.cfg.exit)
                ctx.rep.check(unchanged and always, rule, c, "the override hands its argument to the list unchanged, on every path",
                              f"{cls.name} redefines `{name}` and stores `{show(fv.res.resolve(sup[0].call.args[-1], sup[0].node))[:50] if sup and sup[0].call.args else 'nothing'}` instead of the record it was given: "
                              "every emitter goes through it, so fields are altered after they were validated and formatted (e.g. trailing blanks of the last field are stripped)", where=f.where())
    ctx.rep.holds(rule, "worklist classes/list-operations", f"{n} worklist classes examined for redefined list operations")


def accepts_valid(ctx) -> None:
    """The validator refuses nothing that is valid: it is interpreted (rules/init_model.py - our own interpreter, nothing of
    the repository is executed) for a table of valid argument sets - zero and tiny volumes, the largest accepted volume,
    well number 0 / 1 / 384, labels of 1 and 32 characters, with and without a worklist limit - and must not reach a raise
    through a guard that can be evaluated. (Guards that cannot be evaluated, e.g. on the tip, are assumed to pass.)"""
    from . import init_model

    rule = "C09.accepts-valid"
    v = ctx.prog.require_func("prepare_aspirate_dispense_parameters", rule)
    base = dict(rack_label="Plate", position=1, volume=10.0, liquid_class="", tip=init_model.UNK, rack_id="", tube_id="", rack_type="", forced_rack_type="", max_volume=None)
    table = [dict(base)]
    for vol in (0, 0.0, 0.004, 1, 950, 7158278):
        table.append(dict(base, volume=vol))
    for pos in (0, 1, 384, 1536, 2574):  # 26 rows x 99 columns
        table.append(dict(base, position=pos))
    for lab in ("P", "x" * 32):
        table.append(dict(base, rack_label=lab))
    for fld in ("rack_id", "tube_id", "rack_type", "forced_rack_type", "liquid_class"):
        table.append(dict(base, **{fld: "y" * 32}))  # the longest text every field must take (tube ID and forced rack type have no stated limit)
    table.append(dict(base, max_volume=950, volume=950))
    table.append(dict(base, max_volume=950.5, volume=0))
    table.append(dict(base, liquid_class="Water free dispense", rack_id="0123456789", tube_id="T1", rack_type="96 Well Microplate", forced_rack_type="Trough 100ml"))
    bad = None
    n = 0
    for params in table:
        kind, _ = init_model.run_function(v, {k: val for k, val in params.items() if k in v.params})
        n += 1
        if kind == "raise" and bad is None:
            bad = {k: (val if not (isinstance(val, str) and len(val) > 12) else f"<{len(val)} characters>") for k, val in params.items()
                   if val is not init_model.UNK and base.get(k) != val or k in ("volume", "position", "rack_label")}
    ctx.rep.touch(v)
    ctx.rep.check(bad is None, rule, f"{v.qualname}/valid-arguments", f"none of the {n} valid argument sets of the evaluation table is refused",
                  f"the valid arguments {bad} are refused (a guard that rejects them was reached): a step that the property says must yield a record raises instead", where=v.where())


def validator_numbers(ctx) -> None:
    rule = "C09.sanitise"
    v = ctx.prog.require_func("prepare_aspirate_dispense_parameters", rule)
    fv = ctx.fv(v)
    rets = [n for n in fv.cfg.nodes if n.kind == "stmt" and isinstance(n.ast, ast.Return) and n.ast.value is not None]
    rn = rets[0]
    terms = _raising_terms_all(fv, rn.id)
    w = v.where()
    # position: int, >= 0
    INT_TYPES = {"int", "numpy.integer", "np.integer", "numbers.Integral", "Integral"}
    pos_t = any(cls == "ValueError" and len(t) == 1 and t[0].kind == "isinstance" and t[0].var == "position" and not t[0].pol and "int" in t[0].types and set(t[0].types) <= INT_TYPES for t, n, cls in terms)
    wide = [t[0].types for t, n, cls in terms if cls == "ValueError" and len(t) == 1 and t[0].kind == "isinstance" and t[0].var == "position" and not t[0].pol and not set(t[0].types) <= INT_TYPES]
    if wide:
        ctx.rep.refuted(rule, f"{v.qualname}/position-type", f"position is accepted when it is an instance of {wide[0]}: non-integer numbers (numpy.float64(2.5), NaN) pass the type check and are printed into the record", where=w)
    P = Poly.symbol(ast.Name(id="position", ctx=ast.Load()))
    pos_r = any(cls == "ValueError" and len(t) == 1 and t[0].kind == "cmp" and t[0].cmp in (Cmp(-P, ">"), Cmp(Poly.const(1) - P, ">")) for t, n, cls in terms)
    ctx.rep.check(pos_t and pos_r, rule, f"{v.qualname}/position", "position must be a non-negative int", "position is not restricted to non-negative ints before it is printed", where=w)
    # volume: float(), < 0, > 7158278, NaN
    val = fv.res.resolve(rn.ast.value, rn.id)
    vol = val.elts[2] if isinstance(val, ast.Tuple) and len(val.elts) == 9 else None
    fl = ast.Call(func=ast.Name(id="float", ctx=ast.Load()), args=[ast.Name(id="volume", ctx=ast.Load())], keywords=[])
    F = Poly.symbol(fl)
    neg = any(cls == "ValueError" and len(t) == 1 and t[0].kind == "cmp" and t[0].cmp == Cmp(-F, ">") for t, n, cls in terms)
    big = any(cls == "ValueError" and len(t) == 1 and t[0].kind == "cmp" and t[0].cmp == Cmp(F - Poly.const(7158278), ">") for t, n, cls in terms)
    nan = any(cls == "ValueError" and len(t) == 1 and isinstance(t[0].expr, ast.Call) and call_fname(t[0].expr) == "isnan" and t[0].pol and key(t[0].expr.args[0]) == key(fl) for t, n, cls in terms)
    ctx.rep.check(neg and big and nan, rule, f"{v.qualname}/volume-range", "volume is converted with float() and negative / NaN / oversized values raise ValueError",
                  f"volume range guards incomplete (negative: {neg}, > 7158278: {big}, NaN: {nan}) on the converted value float(volume)", where=w)
    # conversion failure -> ValueError
    trys = [s for s in own_walk(v.node) if isinstance(s, ast.Try)]
    conv = any(any(isinstance(h.body[-1], ast.Raise) and raise_class(fv, h.body[-1])[0] == "ValueError" for h in t.handlers) and any(isinstance(x, ast.Call) and call_fname(x) == "float" for b in t.body for x in ast.walk(b)) for t in trys)
    ctx.rep.check(conv, rule, f"{v.qualname}/volume-conversion", "a volume that is not a number raises ValueError", "float(volume) failing is not turned into ValueError", where=w)
    ok_fmt = False
    if vol is not None and isinstance(vol, ast.JoinedStr):
        parts = template_parts(vol)
        holes = [p for p in parts if isinstance(p, Hole)]
        if len(parts) == 1 and len(holes) == 1 and holes[0].spec == ".2f":
            e = holes[0].expr
            inner = e.args[0] if isinstance(e, ast.Call) and call_fname(e) in ("round", "around") and e.args else e
            two = not (isinstance(e, ast.Call) and call_fname(e) in ("round", "around")) or any((k.arg == "decimals" and isinstance(k.value, ast.Constant) and k.value.value == 2) for k in e.keywords) or (len(e.args) > 1 and isinstance(e.args[1], ast.Constant) and e.args[1].value == 2)
            ok_fmt = key(inner) == key(fl) and two
    ctx.rep.check(ok_fmt, rule, f"{v.qualname}/volume-format", "volume field = the validated float rounded and printed with two decimals", f"the volume field is `{show(vol)[:60] if vol is not None else None}`: not the validated float(volume) formatted with :.2f", where=w)


def _int_validated_names(fv, before: int) -> Set[str]:
    """Names established to be ints before `before`: isinstance guards (also inside new helpers), directly or through the
    validation loop over (name, value) tuples; "each:<list>" when every element of a list is validated."""
    ok: Set[str] = set()
    INTS = ("int", "numpy.integer", "np.integer", "numbers.Integral")

    def harvest(term: ast.AST, pos: int) -> None:
        for sub in ast.walk(term):
            if isinstance(sub, ast.Tuple) and len(sub.elts) > pos and isinstance(sub.elts[pos], ast.Name):
                ok.add(sub.elts[pos].id)
            if isinstance(sub, ast.Tuple) and len(sub.elts) > pos and is_sym(sub.elts[pos], "elem"):
                # ("name", x) appended for every x of a list in a loop that has run to completion
                for a in ([strip_norm(sub.elts[pos].args[1])] + (list(strip_norm(sub.elts[pos].args[1]).args) if is_sym(strip_norm(sub.elts[pos].args[1]), "phi") else [])):
                    for s2 in ast.walk(a):
                        if isinstance(s2, ast.Name) and s2.id != "list":
                            ok.add("each:" + s2.id)
            if isinstance(sub, ast.Call) and not is_sym(sub) and call_fname(sub) == "zip" and len(sub.args) > pos and not sub.keywords:
                # zip(itertools.repeat("name"), values): component `pos` of every pair is an element of that argument
                for s2 in ast.walk(strip_norm(sub.args[pos])):
                    if isinstance(s2, ast.Name) and s2.id not in ("list", "tuple", "itertools"):
                        ok.add("each:" + s2.id)
            if is_sym(sub, "comp") and isinstance(sub.args[1], ast.Tuple) and len(sub.args[1].elts) > pos and is_sym(sub.args[2], "gen"):
                e = sub.args[1].elts[pos]
                src = strip_norm(sub.args[2].args[0])
                if is_sym(e, "elem") and isinstance(src, ast.Name):
                    ok.add("each:" + src.id)
                elif is_sym(e, "elem") and (is_sym(src, "phi") or isinstance(src, ast.IfExp)):
                    for a in (src.args if is_sym(src, "phi") else [src.body, src.orelse]):
                        if isinstance(strip_norm(a), ast.Name):
                            ok.add("each:" + strip_norm(a).id)
                        for s2 in ast.walk(a):
                            if isinstance(s2, ast.Name) and s2.id != "list":
                                ok.add("each:" + s2.id)

    for term, n, cls in _raising_terms_all(fv, before):
        if cls != "ValueError" or len(term) != 1:
            continue
        a = term[0]
        if not (a.kind == "isinstance" and not a.pol and any(t in INTS for t in a.types)):
            continue
        subj = a.expr.args[0]
        if isinstance(subj, ast.Name):
            ok.add(subj.id)
        elif is_sym(subj, "elem") and isinstance(strip_norm(subj.args[1]), ast.Name):
            ok.add("each:" + strip_norm(subj.args[1]).id)
        elif is_sym(subj, "elem") and (is_sym(strip_norm(subj.args[1]), "phi") or isinstance(strip_norm(subj.args[1]), ast.IfExp)):
            # for w in ([] if ws is None else list(ws)): <isinstance check of w>
            src = strip_norm(subj.args[1])
            for a_ in (src.args if is_sym(src, "phi") else [src.body, src.orelse]):
                for s2 in ast.walk(a_):
                    if isinstance(s2, ast.Name) and s2.id != "list":
                        ok.add("each:" + s2.id)
        elif is_sym(subj, "item") and is_sym(subj.args[0], "elem") and isinstance(subj.args[1], ast.Constant):
            pos = subj.args[1].value
            loopid = subj.args[0].args[0].value if isinstance(subj.args[0].args[0], ast.Constant) else ""
            harvest(subj.args[0].args[1], pos)
            # in-place extensions of the iterated list before the loop (list.extend / append / +=)
            if isinstance(loopid, str) and loopid.startswith("loop@"):
                head = int(loopid.split("@")[1])
                raw_it = fv.cfg.nodes[head].ast.iter
                if isinstance(raw_it, ast.Name):
                    for cs in fv.calls():
                        in_done_loop = [h_ for h_ in fv.cfg.enclosing_loops(cs.node) if fv.cfg.nodes[h_].kind == "for"]
                        if isinstance(cs.call.func, ast.Attribute) and cs.call.func.attr in ("extend", "append") and is_name(cs.call.func.value, raw_it.id) and (
                                fv.cfg.dominates(cs.node, head) or (in_done_loop and in_done_loop[0] in fv.cfg.completed_loops_at(head) and not fv.controlling(cs.node, within=fv.cfg.loop_body[in_done_loop[0]]))):
                            for arg in cs.call.args:
                                harvest(fv.res.resolve(arg, cs.node), pos)
                    for dn in fv.cfg.nodes:
                        if dn.kind == "stmt" and isinstance(dn.ast, (ast.Assign, ast.AugAssign)) and fv.cfg.dominates(dn.id, head):
                            tg = dn.ast.targets[0] if isinstance(dn.ast, ast.Assign) else dn.ast.target
                            if is_name(tg, raw_it.id):
                                harvest(fv.res.resolve(dn.ast.value, dn.id), pos)
    return ok


def simple_emitters(ctx) -> None:
    rule = "C09.sanitise"
    for f, fv, cs, parts in emit_sites(ctx):
        if parts is None:
            continue
        kind = _kind(parts)
        w = f.where(cs.call)
        holes = [p for p in parts if isinstance(p, Hole)]
        if kind == "C":
            # comment lines: no ';' (checked before the first append), split at line breaks, stripped, non-empty
            t = fv.res.resolve(holes[0].expr, cs.node) if holes else None
            terms = _raising_terms_all(fv, cs.node)
            def _is_sep(a):
                return isinstance(a.expr, ast.Compare) and isinstance(a.expr.ops[0], ast.In) and a.pol and isinstance(a.expr.left, ast.Constant) and a.expr.left.value == ";" and is_name(a.expr.comparators[0], "comment")

            # (the guard may sit behind the `if not comment: return` early exit: truthiness atoms of the comment are fine)
            sep = any(cls == "ValueError" and any(_is_sep(a) for a in tm) and all(_is_sep(a) or a.kind in ("truthy", "none") for a in tm) for tm, n, cls in terms)
            ctx.rep.check(sep, rule, f"{f.qualname}/comment-separator", "a ';' anywhere in the comment raises ValueError before any line is appended", "the comment text is not checked for ';' before the record is appended", where=w)
            split = t is not None and any(isinstance(s, ast.Call) and call_fname(s) in ("split", "splitlines") for s in ast.walk(t))
            ctx.rep.check(split, rule, f"{f.qualname}/comment-lines", "multi-line comments become one C record per line", f"the comment record carries `{show(t)[:60] if t is not None else None}`: line breaks are not split into separate records", where=w)
        elif kind == "S":
            ints = _int_validated_names(fv, cs.node)
            t = holes[0].expr if holes else None
            ok = isinstance(t, ast.Name) and t.id in ints or (isinstance(t, ast.Call) and call_fname(t) == "int")
            ok = ok or (holes and holes[0].spec is not None and holes[0].spec.endswith("d"))
            ctx.rep.check(bool(ok), rule, f"{f.qualname}/diti_index", "the DiTi index is established to be an int", "the DiTi index is printed without a type check: set_diti('1;X') emits the malformed record 'S;1;X'", where=w)
        elif kind == "W" and holes:
            h = holes[0]
            conv = (isinstance(h.expr, ast.Call) and call_fname(h.expr) == "int") or (h.spec is not None and h.spec.endswith("d"))
            strict_type = "scheme" in _int_validated_names(fv, cs.node)
            ctx.rep.check(conv or strict_type, rule, f"{f.qualname}/scheme", "the scheme number is printed as an integer",
                          "the wash scheme is printed verbatim after a membership test by equality: wash(scheme=1.0) emits 'W1.0;', True emits 'WTrue;'", where=w)
        elif kind == "R":
            ints = _int_validated_names(fv, cs.node)
            for name in ("src_start", "src_end", "dst_start", "dst_end", "diti_reuse", "multi_disp"):
                ctx.rep.check(name in ints, rule, f"{f.qualname}/R-int[{name}]", f"`{name}` is established to be an int before the record is built",
                              f"`{name}` is written into the R record without a type check: a text with ';' injects fields, 2.0 is printed as '2.0'", where=w)
            ctx.rep.check(any(x.startswith("each:") for x in ints), rule, f"{f.qualname}/R-int[exclude_wells]", "every excluded well is established to be an int", "excluded wells are printed without a type check (2.0 is printed as '2.0')", where=w)


# ------------------------------------------------------------------------------ set_diti
def diti_switch(ctx) -> None:
    rule = "C09.diti-switch"
    base = ctx.prog.require_class("BaseWorklist", rule)
    f = base.methods.get("set_diti")
    if f is None:
        raise AnalysisInconclusive(rule, "BaseWorklist.set_diti", "not found")
    fv = ctx.fv(f, base)
    selfn = f.params[0]
    apps = [cs for cs in fv.calls() if isinstance(cs.call.func, ast.Attribute) and cs.call.func.attr == "append" and is_name(cs.call.func.value, selfn)]
    if len(apps) != 1:
        ctx.rep.inconclusive(rule, f.qualname, "append not found")
        return
    ap = apps[0]
    w = f.where()
    ok = False
    detail = "no guard restricts where a DiTi switch may be emitted"
    for n, test, pol_raise, r in fv.raising_guards():
        if raise_class(fv, r)[0] != "InvalidOperationError" or not fv.cfg.dominates(n.id, ap.node):
            continue
        rt = fv.res.resolve(test, n.id)
        terms = dnf(rt, pol_raise)
        # raise  <=>  not (empty or last == "B;")  ==  (not empty) and (last != "B;")
        if len(terms) != 1 or len(terms[0]) != 2:
            detail = f"guard `{show(rt)[:70]}` is not `not (worklist is empty or last record is the break record)`"
            continue
        empty_ok = last_ok = False
        for a in terms[0]:
            e = a.expr
            if isinstance(e, ast.Compare) and call_fname(e.left) == "len" and e.left.args and is_name(e.left.args[0], selfn) and isinstance(e.comparators[0], ast.Constant) and e.comparators[0].value == 0:
                empty_ok = (isinstance(e.ops[0], ast.Eq) and not a.pol) or (isinstance(e.ops[0], (ast.NotEq, ast.Gt)) and a.pol)
            elif isinstance(e, ast.Name) and e.id == selfn:
                empty_ok = a.pol
            elif isinstance(e, ast.Compare) and isinstance(e.left, ast.Subscript) and is_name(e.left.value, selfn) and isinstance(e.comparators[0], ast.Constant):
                idx = e.left.slice
                is_last = isinstance(idx, ast.UnaryOp) and isinstance(idx.op, ast.USub) and isinstance(idx.operand, ast.Constant) and idx.operand.value == 1
                lit = e.comparators[0].value
                # which registered templates can satisfy `last == lit` ?
                matches = _matching_templates(ctx, lit, whole=True)
                last_ok = is_last and ((isinstance(e.ops[0], ast.Eq) and not a.pol) or (isinstance(e.ops[0], ast.NotEq) and a.pol)) and matches == {"B"}
                if is_last and matches != {"B"}:
                    detail = f"`{show(e)}` is satisfied by the record types {sorted(matches)}, not only by the break record"
            elif isinstance(e, ast.Compare) and isinstance(e.left, ast.Subscript) and isinstance(e.left.value, ast.Subscript) and is_name(e.left.value.value, selfn):
                # self[-1][0] == "B"  : prefix discriminator
                lit = e.comparators[0].value if isinstance(e.comparators[0], ast.Constant) else None
                matches = _matching_templates(ctx, lit, whole=False)
                detail = f"`{show(e)}` only looks at the first character of the last record: it also matches {sorted(matches - {'B'})} (e.g. 'B;Wash(...)' after evo_wash)"
            elif isinstance(e, ast.Call) and call_fname(e) == "startswith" and isinstance(e.func.value, ast.Subscript) and is_name(e.func.value.value, selfn):
                lit = e.args[0].value if e.args and isinstance(e.args[0], ast.Constant) else None
                matches = _matching_templates(ctx, lit, whole=False)
                last_ok = not a.pol and matches == {"B"}
                if matches != {"B"}:
                    detail = f"`{show(e)}` also matches {sorted(matches - {'B'})}"
            else:
                detail = f"the guard tests `{show(e)[:60]}`, not the worklist's own last record (e.g. a filtered copy): switches after other records are accepted"
        ok = empty_ok and last_ok
    ctx.rep.check(ok, rule, f"{f.qualname}/position-guard", "a DiTi switch is accepted only on an empty worklist or directly after the break record", detail, where=w)


def _matching_templates(ctx, lit, whole: bool) -> Set[str]:
    out = set()
    if not isinstance(lit, str):
        return {"?"}
    for f, fv, cs, parts in emit_sites(ctx):
        if parts is None:
            # script commands: B;Aspirate( / B;Dispense( / B;Wash(
            for kind in ("B;Aspirate", "B;Dispense", "B;Wash"):
                if (not whole and (kind + "(").startswith(lit)) or (whole and False):
                    out.add(kind)
            continue
        const = "".join(p if isinstance(p, str) else "\x00" for p in parts)
        if whole:
            if "\x00" not in const and const == lit:
                out.add(_kind(parts))
            elif "\x00" in const:
                # a template with holes could produce the literal only if its constant skeleton is compatible
                pre = const.split("\x00")[0]
                if lit.startswith(pre) and len(lit) > len(pre) and _kind(parts) not in ("B",):
                    # e.g. "C;{x}" could equal "C;..." but never "B;"
                    if pre and lit.startswith(pre):
                        out.add(_kind(parts))
        else:
            pre = const.split("\x00")[0]
            if pre.startswith(lit) or lit.startswith(pre):
                out.add(_kind(parts))
    return out


def modes(ctx) -> None:
    rule = "C09.modes"
    base = ctx.prog.require_class("BaseWorklist", rule)
    f = base.methods.get("decontaminate")
    if f is None:
        raise AnalysisInconclusive(rule, "decontaminate", "not found")
    fv = ctx.fv(f, base)
    selfn = f.params[0]
    emits = [n.id for n in fv.cfg.nodes if any(e.kind == "EMIT" for e in ctx.E.direct(fv, n))]
    ok = False
    for n, test, pol, r in fv.raising_guards():
        if attr_of_name(fv.res.resolve(test, n.id), selfn, "diti_mode") and pol and raise_class(fv, r)[0] == "InvalidOperationError" and all(fv.cfg.dominates(n.id, e) for e in emits):
            ok = True
    if not ok and emits:
        # the same dispatch with the emitting branch first: every emit happens where diti_mode is known to be false, and a raise
        # of InvalidOperationError stands where it is known to be true
        def knows(nid, pol_):
            return any(attr_of_name(r_, selfn, "diti_mode") and p_ == pol_ for r_, p_, _b in fv.atoms_at(nid))

        raises = [n for n in fv.cfg.nodes if n.kind == "stmt" and isinstance(n.ast, ast.Raise) and raise_class(fv, n.ast)[0] == "InvalidOperationError"]
        ok = all(knows(e, False) for e in emits) and any(knows(n.id, True) for n in raises)
    ctx.rep.check(ok and bool(emits), rule, f"{f.qualname}/diti", "a decontamination wash in DiTi mode raises InvalidOperationError and appends nothing", "decontaminate() does not refuse DiTi mode before emitting WD;", where=f.where())
