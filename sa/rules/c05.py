"""C05 - composition tracking: ownership, pairing, mixing formula shape, zero-division, default naming.

Not decided: numeric equality with exact-arithmetic mixing over histories, normalisation/conservation as runtime facts.
"""
from __future__ import annotations

import ast
from typing import List, Optional

from ..canon import Cmp, Poly, to_cmp, to_poly
from ..defuse import is_sym, key, show, strip_norm, sym
from ..engine import Effect, own_walk, return_exprs, template_parts, Hole
from ..model import AnalysisInconclusive
from . import labware_loop as LL
from .common import attr_of_name, call_fname, cmp_facts, concrete_devices, elem_parts, has_unknown, is_name, same, stmt_key

EXPLANATION = (
    "C05: structural clauses of composition tracking. Only Labware.__init__ and Labware.add write the composition map "
    "(remove's effect summary is free of such writes); add writes only the addressed element, creating new component "
    "arrays as zeros; combine_composition receives the pre-store volume and the composition of the same well, its "
    "result covers every component of both inputs with the canonical weights f*volume / (volume_A + volume_B) and the "
    "division is guarded against a zero total; transfer/distribute hand the source well's composition to the "
    "dispense; default component names depend on the well (multi-row) / column (multi-column trough)."
)
ASSUMPTIONS = ["dict comprehension over x.items() preserves the key set of x"]

COMP_OWNERS = {"Labware.__init__": "initial one-hot composition", "Labware.add": "mixing on addition"}


def run(ctx) -> None:
    ctx.guard("C05.owner", owner)
    ctx.guard("C05.local-write", local_write)
    ctx.guard("C05.local-write", shared_arrays)
    ctx.guard("C05.mix-args", mix_args)
    ctx.guard("C05.mix-formula", mix_formula)
    ctx.guard("C05.div-zero", div_zero)
    ctx.guard("C05.read-exact", read_exact)
    from . import c01

    for dev in concrete_devices(ctx):
        ctx.reuse("C05.source-comp", c01.pair_transfer, dev)
    ctx.reuse("C05.source-comp", c01.pair_distribute, "C01.pair-distribute")
    ctx.guard("C05.comp-forwarding", comp_forwarding)
    from . import c04, c13

    ctx.reuse("C05.comp-forwarding", c13.same_args, "evo_dispense", "add")
    # the flat list of compositions is paired with the wells in column-major order (the documented flattening)
    ctx.reuse("C05.mix-args", c04.pairing_family)
    # the mixing formula reads the well's volume before the addition from the labware's own store: a store shared with the
    # caller (or another labware) or of integer dtype gives a wrong `v_original`, hence wrong fractions
    from . import c02

    ctx.reuse("C05.mix-args", c02.ctor)
    from . import c20 as _c20

    ctx.reuse("C05.mix-args", _c20.guard_table)
    ctx.reuse("C05.mix-args", c02.alias)
    # conservation: what is booked is what was asked for - a split volume adds up to the request, an overfull well is refused
    # (not clipped while the fractions are mixed with the full amount)
    from . import c06

    ctx.reuse("C05.mix-args", c06.partition_volume)
    for kind_ in ("add", "remove"):
        ctx.reuse("C05.mix-args", c02.guard, kind_)
    ctx.guard("C05.default-name", default_name)
    ctx.guard("C05.default-name", trough_names)
    ctx.guard("C05.default-name", _name_buffers)


def shared_arrays(ctx) -> None:
    """Every component gets an array of its own: `dict.fromkeys(names, <array>)` and `[<array>] * n` bind one object to all
    keys / positions, so a fraction written for one component shows up in all of them."""
    rule = "C05.local-write"
    lab = ctx.prog.require_class("Labware", rule)
    hits = []
    n = 0
    funcs = list(lab.methods.values()) + [g for g in ctx.prog.all_functions() if g.module.relpath.endswith("liquidhandling/composition.py")]
    for f in funcs:
        ctx.rep.touch(f)
        for sub in own_walk(f.node):
            if isinstance(sub, ast.Call) and call_fname(sub) == "fromkeys" and len(sub.args) == 2:
                n += 1
                v = sub.args[1]
                if isinstance(v, (ast.Call, ast.List, ast.Dict, ast.Set, ast.ListComp, ast.DictComp)) and not (isinstance(v, ast.Call) and call_fname(v) in ("int", "float", "str", "bool", "tuple", "frozenset")):
                    hits.append((f, sub, f"`{stmt_key(sub)[:70]}` binds one object (`{show(v)[:30]}`) to every key"))
            if isinstance(sub, ast.BinOp) and isinstance(sub.op, ast.Mult):
                for a, b in ((sub.left, sub.right), (sub.right, sub.left)):
                    if isinstance(a, ast.List) and len(a.elts) == 1 and isinstance(a.elts[0], ast.Call) and call_fname(a.elts[0]) in ("zeros", "zeros_like", "full", "empty", "ones", "array", "copy", "dict", "list"):
                        n += 1
                        hits.append((f, sub, f"`{stmt_key(sub)[:70]}` repeats one array object"))
    for f, sub, msg in hits:
        ctx.rep.refuted(rule, f"{f.qualname}/{stmt_key(sub)[:40]}", msg + ": the components share their fractions array - writing the fraction of one liquid changes the others", where=f.where(sub))
    if not hits:
        ctx.rep.holds(rule, "Labware/composition.py: no shared component arrays", f"{n} fromkeys / list-repetition site(s) examined, none shares a mutable object")


def comp_forwarding(ctx) -> None:
    """Every entry point that accepts `compositions` (dispense, evo_dispense) hands them, unchanged, to Labware.add - or
    to another entry point that does. A `compositions` parameter that is accepted and dropped makes the dispensed
    components vanish from the tracking."""
    rule = "C05.comp-forwarding"
    n = 0
    for f in ctx.prog.all_functions():
        if "compositions" not in f.params or f.short == "Labware.add" or "test" in f.module.name:
            continue
        n += 1
        fv = ctx.fv(f, f.cls)
        ctx.rep.touch(f)
        c = f"{f.qualname}/compositions"
        uses = [x for x in own_walk(f.node) if isinstance(x, ast.Name) and x.id == "compositions" and isinstance(x.ctx, ast.Load)]
        if not uses:
            ctx.rep.refuted(rule, c, f"{f.short} accepts `compositions` but never uses them: the dispensed liquid is booked without its components", where=f.where())
            continue
        fwd = []
        for cs in fv.calls():
            g = cs.callee.func if cs.callee.kind == "func" else None
            if g is None or "compositions" not in g.params:
                continue
            b = fv.bind_args(cs) or {}
            if "compositions" in b:
                fwd.append((cs, b["compositions"]))
        if not fwd:
            ctx.rep.inconclusive(rule, c, "`compositions` is used but no resolved call receives it as `compositions`", where=f.where())
            continue
        for cs, arg in fwd:
            t = fv.res.resolve(arg, cs.node)
            ctx.rep.check(is_name(strip_norm(t), "compositions"), rule, c + f"[{cs.callee.func.short}]", "the given compositions are handed on unchanged",
                          f"`{cs.callee.func.short}` receives compositions=`{show(t)[:50]}` instead of the caller's compositions", where=f.where(cs.call))
    ctx.rep.floor(rule, "entry points that accept compositions", n, 2)


def owner(ctx) -> None:
    rule = "C05.owner"
    n = 0
    for f in ctx.prog.all_functions():
        fv = ctx.E.fv(f)
        for node in fv.cfg.nodes:
            if any(e.kind == "COMPWRITE" for e in ctx.E.direct(fv, node)):
                n += 1
                ctx.rep.touch(f)
                ctx.rep.check(f.short in COMP_OWNERS, rule, f"{f.qualname}/{stmt_key(node.ast)[:60]}", COMP_OWNERS.get(f.short, ""),
                              f"{f.short} writes the composition map (`{stmt_key(node.ast)[:70]}`); only Labware.__init__ and Labware.add may", where=f.where(node.ast))
    ctx.rep.floor(rule, "composition write sites", n, 3)
    rem = ctx.prog.require_func("Labware.remove", rule)
    effs = ctx.E.summary(rem)
    ctx.rep.touch(rem)
    ctx.rep.check(not any(e.kind == "COMPWRITE" for e in effs), rule, f"{rem.qualname}/frame", "Labware.remove (and everything it calls) never writes the composition",
                  "Labware.remove reaches a write of the composition map: removing liquid changes a well's composition", where=rem.where())
    g = ctx.prog.require_func("Labware.get_well_composition", rule)
    ctx.rep.touch(g)
    rets = [r for r in return_exprs(g)]
    fresh = all(isinstance(r, (ast.DictComp, ast.Dict)) or (isinstance(r, ast.Constant) and r.value is None) or isinstance(r, ast.Name) for r in rets)
    named = [r for r in rets if isinstance(r, ast.Name)]
    gfv = ctx.fv(g)
    for r in named:
        t = gfv.res.resolve(r, gfv.node_of(r))
        fresh = fresh and (is_sym(t, "comp") or isinstance(t, ast.Dict))
    ctx.rep.check(fresh, rule, f"{g.qualname}/return", "get_well_composition builds a fresh dict", "get_well_composition hands out internal state", where=g.where())


def read_exact(ctx) -> None:
    """get_well_composition reports the stored fraction of every component that is present: the value is the array
    element itself and the only components left out are those whose fraction is exactly zero."""
    rule = "C05.read-exact"
    g = ctx.prog.require_func("Labware.get_well_composition", rule)
    fv = ctx.fv(g)
    selfn = g.params[0]
    n = 0
    for rn, val in fv.returns():
        if isinstance(val, ast.Constant) and val.value is None:
            continue
        raw, at = fv.def_expr(rn.ast.value, rn.id)
        c = f"{g.qualname}/return"
        w = g.where(rn.ast)
        if not (isinstance(raw, ast.DictComp) and len(raw.generators) == 1):
            ctx.rep.inconclusive(rule, c, f"reported composition is built by `{show(raw)[:60]}`, not by one dict comprehension over the component arrays", where=w)
            continue
        n += 1
        gen = raw.generators[0]
        it = gen.iter
        if isinstance(it, ast.Call) and isinstance(it.func, ast.Attribute) and isinstance(it.func.value, ast.Name) and it.func.value.id not in g.params:
            # the mapping through a single-definition local (a helper's parameter bound by the expansion)
            src, _at = fv.def_expr(it.func.value, at if at is not None else rn.id)
            if isinstance(src, ast.Attribute):
                it = ast.Call(func=ast.Attribute(value=src, attr=it.func.attr, ctx=ast.Load()), args=list(it.args), keywords=list(it.keywords))
        ok_it = isinstance(it, ast.Call) and isinstance(it.func, ast.Attribute) and it.func.attr == "items" and (
            attr_of_name(it.func.value, selfn, "composition") or attr_of_name(it.func.value, selfn, "_composition"))
        tgt = gen.target
        if not (ok_it and isinstance(tgt, ast.Tuple) and len(tgt.elts) == 2 and all(isinstance(e, ast.Name) for e in tgt.elts)):
            ctx.rep.inconclusive(rule, c, f"comprehension does not iterate self.composition.items() as (name, array): `{show(it)[:60]}`", where=w)
            continue
        kname, fname = tgt.elts[0].id, tgt.elts[1].id

        def is_elem(e):
            if not (isinstance(e, ast.Subscript) and is_name(e.value, fname)):
                return False
            ix = fv.res.resolve(e.slice, at)
            return isinstance(ix, ast.Subscript) and (attr_of_name(ix.value, selfn, "indices") or attr_of_name(ix.value, selfn, "_indices")) \
                and len(g.params) > 1 and is_name(ix.slice, g.params[1])

        ctx.rep.check(is_name(raw.key, kname) and is_elem(raw.value), rule, c + "/value", "reports {name: array[index of the well]}",
                      f"reported entry is `{show(raw.key)[:30]}: {show(raw.value)[:50]}`; expected the component name with the stored fraction of this well itself", where=w)
        for cond in gen.ifs:
            cm = None
            if isinstance(cond, ast.Compare) and len(cond.ops) == 1:
                x = ast.Name(id="§x", ctx=ast.Load())
                l, r = cond.left, cond.comparators[0]
                if is_elem(l) and not is_elem(r):
                    cm = to_cmp(ast.Compare(left=x, ops=cond.ops, comparators=[r]), True)
                elif is_elem(r) and not is_elem(l):
                    cm = to_cmp(ast.Compare(left=l, ops=cond.ops, comparators=[x]), True)
            X = Poly.symbol(ast.Name(id="§x", ctx=ast.Load()))
            if cm is not None and (cm == Cmp(X, ">") or cm == Cmp(X, "!=")):
                ctx.rep.holds(rule, c + f"/filter[{show(cond)[:30]}]", "only components whose fraction is exactly 0 are left out", where=w)
            elif cm is not None or any(isinstance(s_, ast.Call) and call_fname(s_) in ("isclose", "allclose", "round", "around") for s_ in ast.walk(cond)):
                ctx.rep.refuted(rule, c + f"/filter[{show(cond)[:30]}]", f"components are left out of the reported composition by `{show(cond)[:60]}`, which also drops components that are present "
                                "in a small but non-zero fraction: they are not reported, not passed on by transfers and the fractions no longer sum to 1", where=w)
            else:
                ctx.rep.inconclusive(rule, c + f"/filter[{show(cond)[:30]}]", f"cannot decide whether `{show(cond)[:60]}` only leaves out absent components", where=w)
    ctx.rep.floor(rule, "composition read-outs", n, 1)


def _comp_stores(ctx, fv):
    out = []
    selfn = fv.f.params[0]
    for node in fv.cfg.nodes:
        if node.kind == "stmt" and isinstance(node.ast, (ast.Assign, ast.AugAssign)) and any(e.kind == "COMPWRITE" for e in ctx.E.direct(fv, node)):
            t = node.ast.targets[0] if isinstance(node.ast, ast.Assign) else node.ast.target
            out.append((node, t))
    return out


def local_write(ctx) -> None:
    rule = "C05.local-write"
    f = ctx.prog.require_func("Labware.add", rule)
    fv = ctx.fv(f)
    selfn = f.params[0]
    vol_stores = [s for s in LL.analyse_stores(ctx, fv) if s.element_store and s.idx_term is not None]
    if not vol_stores:
        raise AnalysisInconclusive(rule, f.qualname, "no volume element store to compare with")
    vidx = key(vol_stores[0].idx_term)
    n_elem = 0
    for node, t in _comp_stores(ctx, fv):
        c = f"{f.qualname}/{stmt_key(node.ast)[:60]}"
        w = f.where(node.ast)
        # self._composition[k][idx] = f      |   self._composition[k] = zeros_like(...)
        if isinstance(t, ast.Subscript) and isinstance(t.value, ast.Subscript) and attr_of_name(t.value.value, selfn, "_composition"):
            n_elem += 1
            idx = fv.res.resolve(t.slice, node.id)
            ctx.rep.check(key(idx) == vidx, rule, c + "/index", "fraction is written at the index of the addressed well",
                          f"fraction is written at `{show(idx)[:60]}`, not at the index of the well that received the liquid", where=w)
            if isinstance(node.ast, ast.AugAssign):
                ctx.rep.refuted(rule, c + "/assign", "fractions must be replaced by the mixed value, not accumulated", where=w)
            # every item of the mixed composition is written: a component whose fraction became 0 (or any other filtered item)
            # would keep the stale fraction of the liquid that was in the well before
            loops_ = fv.cfg.enclosing_loops(node.id)
            if loops_:
                inner_body = fv.cfg.loop_body[loops_[-1]]
                conds = [(r_, p_) for r_, p_, _b in fv.atoms_at(node.id, within=inner_body, skip_raising=True)]
                ctx.rep.check(not conds, rule, c + "/every-item", "every item of the mixed composition is written back",
                              f"the write-back of an item is skipped {'unless' if conds and conds[0][1] else 'when'} `{show(conds[0][0])[:50] if conds else ''}`: the well keeps the stale fraction of a "
                              "component that the mixture no longer contains (fractions then sum to more than 1)", where=w)
            # the fractions are written for an addition that was accepted: no refusal (raise) of the same well's addition can
            # still be reached after the write-back - a dispense rejected with VolumeOverflowError would leave the volume
            # unchanged and the composition mixed as if the liquid had arrived
            if loops_:
                outer = loops_[0]
                after = fv.cfg.reachable_from(node.id, blocked={outer})
                late = [fv.cfg.nodes[x] for x in after if x in fv.cfg.loop_body[outer] and fv.cfg.nodes[x].kind == "stmt" and isinstance(fv.cfg.nodes[x].ast, ast.Raise)]
                ctx.rep.check(not late, rule, c + "/after-limit-check", "the fractions are written only after the addition to this well was accepted",
                              f"`{stmt_key(late[0].ast)[:60] if late else ''}` can still refuse the addition after the mixed fractions were written: a rejected addition leaves the "
                              "well's volume unchanged but its composition altered", where=w)
            # value and key come from the same items() iteration over the combined composition
            kterm = fv.res.resolve(t.value.slice, node.id)
            vterm = fv.res.resolve(node.ast.value, node.id)
            ok = is_sym(kterm, "key") and is_sym(vterm, "val") and key(kterm.args[0]) == key(vterm.args[0]) and key(kterm.args[1]) == key(vterm.args[1])
            ctx.rep.check(ok, rule, c + "/pair", "component name and fraction come from the same item of the mixed composition",
                          f"component `{show(kterm)[:50]}` and fraction `{show(vterm)[:50]}` are not one item of the mixed composition", where=w)
        elif isinstance(t, ast.Subscript) and attr_of_name(t.value, selfn, "_composition"):
            v = node.ast.value
            ok = isinstance(v, ast.Call) and call_fname(v) in ("zeros_like", "zeros", "full_like", "full")
            if ok and call_fname(v) in ("full_like", "full"):
                fill = v.args[1] if len(v.args) > 1 else None
                ok = isinstance(fill, ast.Constant) and fill.value == 0
            guard_ok = any(isinstance(r, ast.Compare) and len(r.ops) == 1 and ((isinstance(r.ops[0], ast.NotIn) and pol) or (isinstance(r.ops[0], ast.In) and not pol))
                           for r, pol, raw in fv.rfacts_at(node.id))
            ctx.rep.check(ok and guard_ok, rule, c + "/new-component", "a new component starts as zeros in every well, only when it does not exist yet",
                          "a component array is (re)created with non-zero content or for an existing component: other wells' fractions change", where=w)
        else:
            ctx.rep.refuted(rule, c, f"`{stmt_key(node.ast)[:70]}` rewrites the composition map wholesale", where=w)
    ctx.rep.floor(rule, "element stores of fractions", n_elem, 1)


def mix_args(ctx) -> None:
    rule = "C05.mix-args"
    f = ctx.prog.require_func("Labware.add", rule)
    fv = ctx.fv(f)
    selfn = f.params[0]
    calls = [cs for cs in fv.calls() if cs.callee.kind == "func" and cs.callee.func.name == "combine_composition"]
    if len(calls) != 1:
        ctx.rep.check(None if not calls else False, rule, f"{f.qualname}/combine", "", f"expected one combine_composition call, found {len(calls)}", where=f.where())
        return
    cs = calls[0]
    b = fv.bind_args(cs) or {}
    w = f.where(cs.call)
    stores = [s for s in LL.analyse_stores(ctx, fv) if s.element_store and s.well_elem is not None]
    if not stores:
        # fractions are committed well by well inside the loop - the volumes must be, too; otherwise a call that fails at a
        # later well leaves wells whose reported composition belongs to liquid that was never added
        comp_in_loop = [n for n, t in _comp_stores(ctx, fv) if fv.cfg.enclosing_loops(n.id)]
        rebinds = [n for n in fv.cfg.nodes if n.kind == "stmt" and isinstance(n.ast, ast.Assign) and attr_of_name(n.ast.targets[0], selfn, "_volumes") and not fv.cfg.enclosing_loops(n.id)]
        if comp_in_loop and rebinds:
            ctx.rep.refuted(rule, f"{f.qualname}/commit-order", f"the mixed fractions are written per well inside the loop (`{stmt_key(comp_in_loop[0].ast)[:50]}`) but the volumes are only committed after it "
                            f"(`{stmt_key(rebinds[0].ast)[:40]}`): when a later well is refused, earlier wells report the composition of liquid they never received", where=f.where(comp_in_loop[0].ast))
            return
    if not stores or not all(k in b for k in ("volume_A", "composition_A", "volume_B", "composition_B")):
        ctx.rep.inconclusive(rule, f"{f.qualname}/combine", "cannot bind the arguments / find the volume store", where=w)
        return
    st = stores[0]
    load = ast.Subscript(value=st.target.value, slice=st.target.slice, ctx=ast.Load())
    oldkey = key(fv.res.resolve(load, st.node))
    vA = fv.res.resolve(b["volume_A"], cs.node)
    is_old = key(vA) == oldkey
    # the load must have been taken before the store of this iteration
    pre = False
    if isinstance(b["volume_A"], ast.Name):
        defs = fv.cfg.reaching()[cs.node].get(b["volume_A"].id, frozenset())
        blocked = {st.loop_head} if st.loop_head is not None else set()
        pre = len(defs) == 1 and all(d in fv.cfg.reaching_to(st.node, blocked) and d != st.node for d in defs)
    ctx.rep.check(is_old and pre, rule, f"{f.qualname}/volume_A", "resident liquid is weighted with the volume loaded before the store",
                  f"volume_A is `{show(vA)[:60]}` evaluated {'after' if is_old else 'not from'} the volume store: the resident liquid is weighted with the wrong volume", where=w)
    cA = fv.res.resolve(b["composition_A"], cs.node)
    okA = isinstance(cA, ast.Call) and isinstance(cA.func, ast.Attribute) and cA.func.attr == "get_well_composition" and is_name(cA.func.value, selfn) and len(cA.args) == 1 \
        and elem_parts(cA.args[0]) is not None and elem_parts(cA.args[0])[0] == st.well_elem[0] and same(elem_parts(cA.args[0])[1], st.well_elem[1])
    ctx.rep.check(okA, rule, f"{f.qualname}/composition_A", "resident composition is that of the addressed well",
                  f"composition_A is `{show(cA)[:70]}`: not the composition of the well that receives the liquid", where=w)
    vB, cB = fv.res.resolve(b["volume_B"], cs.node), fv.res.resolve(b["composition_B"], cs.node)
    eB, eC = elem_parts(vB), elem_parts(cB)
    # the mixing is skipped only for an unknown incoming composition (None) or an untracked labware (None):
    # an empty dict is a known composition (liquid without tracked components) and still dilutes the resident liquid
    if st.loop_head is not None:
        body = fv.cfg.loop_body[st.loop_head]
        for r, pol, _br in fv.atoms_at(cs.node, within=body, skip_raising=True):
            is_none_test = isinstance(r, ast.Compare) and len(r.ops) == 1 and isinstance(r.ops[0], ast.Is) and isinstance(r.comparators[0], ast.Constant) and r.comparators[0].value is None
            subject = r.left if is_none_test else r
            about_comp = key(subject) == key(cB) or attr_of_name(subject, selfn, "_composition") or attr_of_name(subject, selfn, "composition")
            ok_atom = is_none_test and not pol and about_comp
            ctx.rep.check(ok_atom, rule, f"{f.qualname}/when[{show(r)[:30]}]", "mixing is skipped only for a None composition / untracked labware",
                          f"the composition update is {'skipped unless' if pol else 'skipped when'} `{show(r)[:50]}`: additions with a known composition "
                          "(e.g. an empty dict: liquid without tracked components) no longer dilute the resident liquid", where=w)
    loop = st.well_elem[0]
    okB = eB is not None and eC is not None and eB[0] == loop and eC[0] == loop and is_name(strip_norm(eB[1]), "volumes")
    ctx.rep.check(okB, rule, f"{f.qualname}/incoming", "incoming volume and composition are those of the same iteration",
                  f"incoming volume `{show(vB)[:40]}` / composition `{show(cB)[:40]}` are not the elements of this iteration", where=w)


def mix_formula(ctx) -> None:
    rule = "C05.mix-formula"
    f = ctx.prog.require_func("combine_composition", rule)
    fv = ctx.fv(f)
    rets = [n for n in fv.cfg.nodes if n.kind == "stmt" and isinstance(n.ast, ast.Return)]
    vA, vB = ast.Name(id="volume_A", ctx=ast.Load()), ast.Name(id="volume_B", ctx=ast.Load())
    total = Poly.symbol(vA) + Poly.symbol(vB)
    n_main = 0
    for rn in rets:
        c = f"{f.qualname}/return[{stmt_key(rn.ast)[:40]}]"
        w = f.where(rn.ast)
        val = rn.ast.value
        t = fv.res.resolve(val, rn.id) if val is not None else ast.Constant(value=None)
        facts = fv.rfacts_at(rn.id)
        if isinstance(t, ast.Constant) and t.value is None:
            ok = any(isinstance(r, ast.BoolOp) and pol for r, pol, raw in facts) or any(
                isinstance(r, ast.Compare) and isinstance(r.ops[0], ast.Is) and pol and isinstance(r.comparators[0], ast.Constant) and r.comparators[0].value is None for r, pol, raw in facts)
            ctx.rep.check(ok, rule, c, "None only when a composition is unknown", "returns None (unknown) although both compositions may be known", where=w)
            continue
        zero_total = any((to_cmp(r, pol) == Cmp(total, "==")) for r, pol, raw in facts if isinstance(r, ast.Compare) and len(r.ops) == 1)
        if isinstance(t, ast.Call) and call_fname(t) in ("dict", "copy") and zero_total:
            ctx.rep.holds(rule, c, "unchanged composition only when nothing is mixed (total volume 0)", where=w)
            continue
        if is_sym(t, "comp") and isinstance(t.args[0], ast.Constant) and t.args[0].value == "DictComp":
            n_main += 1
            kexpr, vexpr, gen = t.args[1], t.args[2], t.args[3]
            src = gen.args[0] if is_sym(gen, "gen") else None
            # value = item value / (volume_A + volume_B)
            okv = isinstance(vexpr, ast.BinOp) and isinstance(vexpr.op, ast.Div) and is_sym(vexpr.left, "val") and to_poly(vexpr.right) == total and is_sym(kexpr, "key") and len(gen.args) == 1
            ctx.rep.check(okv, rule, c + "/normalise", "every accumulated amount is divided by volume_A + volume_B",
                          f"fractions are `{show(vexpr)[:70]}`: not <amount> / (volume_A + volume_B) for every component", where=w)
            # the accumulated dict: initialised from all items of A with f*volume_A, extended with all items of B by f*volume_B
            _check_accumulator(ctx, rule, fv, f, rn)
            continue
        ctx.rep.refuted(rule, c, f"returned composition `{show(t)[:80]}` does not cover every component of both liquids with volume weights"
                        " (components missing from the result keep their old fraction in Labware.add)", where=w)
    ctx.rep.floor(rule, "normalising return", n_main, 1)


def _check_accumulator(ctx, rule, fv, f, rn) -> None:
    # find `acc = {k: f * volume_A for k, f in composition_A.items()}` and the loop `acc[k] += f * volume_B`
    inits = [n for n in fv.cfg.nodes if n.kind == "stmt" and isinstance(n.ast, ast.Assign) and isinstance(n.ast.value, ast.DictComp)
             and isinstance(n.ast.value.generators[0].iter, ast.Call) and call_fname(n.ast.value.generators[0].iter) == "items"]
    ok_init = False
    acc = None
    for n in inits:
        dc = n.ast.value
        g = dc.generators[0]
        if is_name(g.iter.func.value, "composition_A") and isinstance(g.target, ast.Tuple) and len(g.target.elts) == 2 and not g.ifs and len(dc.generators) == 1:
            kn, fn_ = g.target.elts[0].id, g.target.elts[1].id
            ok_init = is_name(dc.key, kn) and to_poly(dc.value) == Poly.symbol(ast.Name(id=fn_, ctx=ast.Load())) * Poly.symbol(ast.Name(id="volume_A", ctx=ast.Load()))
            acc = n.ast.targets[0].id if isinstance(n.ast.targets[0], ast.Name) else None
    if not inits:
        # loop form:  acc = {};  for k, f in composition_A.items(): acc[k] = f * volume_A
        for lp in (n for n in fv.cfg.nodes if n.kind == "for"):
            it = lp.ast.iter
            if not (isinstance(it, ast.Call) and call_fname(it) == "items" and is_name(it.func.value, "composition_A") and isinstance(lp.ast.target, ast.Tuple) and len(lp.ast.target.elts) == 2
                    and all(isinstance(e, ast.Name) for e in lp.ast.target.elts)) or fv.cfg.enclosing_loops(lp.id) or fv.cfg.loop_has_break.get(lp.id):
                continue
            kn, fn_ = lp.ast.target.elts[0].id, lp.ast.target.elts[1].id
            body = fv.cfg.loop_body[lp.id]
            stores = [m for m in (fv.cfg.nodes[i] for i in body) if m.kind == "stmt" and isinstance(m.ast, (ast.Assign, ast.AugAssign)) and isinstance(m.ast.targets[0] if isinstance(m.ast, ast.Assign) else m.ast.target, ast.Subscript)]
            if len(stores) == 1 and isinstance(stores[0].ast, ast.Assign) and isinstance(stores[0].ast.targets[0].value, ast.Name) and not fv.controlling(stores[0].id, within=body):
                st_ = stores[0].ast
                name_ = st_.targets[0].value.id
                empties = [m for m in fv.cfg.nodes if m.kind == "stmt" and isinstance(m.ast, (ast.Assign, ast.AnnAssign)) and is_name(m.ast.targets[0] if isinstance(m.ast, ast.Assign) else m.ast.target, name_)
                           and isinstance(m.ast.value, ast.Dict) and not m.ast.value.keys and fv.cfg.dominates(m.id, lp.id)]
                if len(empties) == 1 and is_name(st_.targets[0].slice, kn):
                    ok_init = to_poly(st_.value) == Poly.symbol(ast.Name(id=fn_, ctx=ast.Load())) * Poly.symbol(ast.Name(id="volume_A", ctx=ast.Load()))
                    acc = name_
    ctx.rep.check(ok_init, rule, f"{f.qualname}/weights-A", "every component of A enters with fraction * volume_A",
                  "the accumulator is not initialised with fraction * volume_A for every component of liquid A", where=f.where())
    ok_b = False
    for n in fv.cfg.nodes:
        if n.kind == "stmt" and isinstance(n.ast, ast.AugAssign) and isinstance(n.ast.op, ast.Add) and isinstance(n.ast.target, ast.Subscript) and acc and (is_name(n.ast.target.value, acc) or is_name(fv.alias_root(n.ast.target.value, n.id), acc)):
            loops = [h for h in fv.cfg.enclosing_loops(n.id) if fv.cfg.nodes[h].kind == "for"]
            if not loops:
                continue
            lp = fv.cfg.nodes[loops[-1]]
            it = lp.ast.iter
            if isinstance(it, ast.Call) and call_fname(it) == "items" and is_name(it.func.value, "composition_B") and isinstance(lp.ast.target, ast.Tuple):
                kn, fn_ = lp.ast.target.elts[0].id, lp.ast.target.elts[1].id
                uncond = not fv.controlling(n.id, within=fv.cfg.loop_body[loops[-1]])
                ok_b = is_name(n.ast.target.slice, kn) and uncond and not fv.cfg.loop_has_break.get(loops[-1]) and \
                    to_poly(n.ast.value) == Poly.symbol(ast.Name(id=fn_, ctx=ast.Load())) * Poly.symbol(ast.Name(id="volume_B", ctx=ast.Load()))
    ctx.rep.check(ok_b, rule, f"{f.qualname}/weights-B", "every component of B is added with fraction * volume_B",
                  "the incoming components are not all accumulated as fraction * volume_B", where=f.where())


def div_zero(ctx) -> None:
    rule = "C05.div-zero"
    n = 0
    targets = [f for f in ctx.prog.all_functions() if f.module.name.endswith("liquidhandling.composition") or (f.cls is not None and f.cls.name in ("Labware", "Trough"))]
    for f in targets:
        divs = [s for s in own_walk(f.node) if isinstance(s, ast.BinOp) and isinstance(s.op, (ast.Div, ast.FloorDiv, ast.Mod))]
        if not divs:
            continue
        fv = ctx.fv(f)
        for d in divs:
            n += 1
            at = fv.node_of(d)
            den = fv.res.resolve(d.right, at)
            pd = to_poly(den)
            c = f"{f.qualname}/{stmt_key(d)[:50]}"
            if pd.is_const():
                ctx.rep.check(pd.const_value() != 0, rule, c, "constant non-zero denominator", "division by constant zero", where=f.where(d))
                continue
            ok = False
            for cm, atom, pol, br in cmp_facts(fv, at):
                if cm == Cmp(pd, "!=") or cm == Cmp(pd, ">"):
                    ok = True
            ctx.rep.check(ok, rule, c, f"denominator `{pd.pretty()}` is guarded against 0",
                          f"denominator `{pd.pretty()}` can be 0 (adding 0 µL to an empty well): 0/0 stores NaN fractions; no guard on a zero total dominates the division", where=f.where(d))
    ctx.rep.floor(rule, "divisions in composition tracking", n, 1)


def _name_buffers(ctx) -> None:
    from .common import buffer_dtype_rule

    if buffer_dtype_rule(ctx, "C05.default-name", ("get_initial_composition", "get_trough_component_names"), ("name", "real_wells", "component_names", "column_names")) == 0:
        ctx.rep.holds("C05.default-name", "composition/no-typed-buffer", "component names are not kept in a fixed-width string buffer")


def default_name(ctx) -> None:
    rule = "C05.default-name"
    f = ctx.prog.require_func("get_initial_composition", rule)
    fv = ctx.fv(f)
    loops = [n for n in fv.cfg.nodes if n.kind == "for"]
    main = None
    for lp in loops:
        it = fv.res.resolve(lp.ast.iter, lp.id)
        if isinstance(it, ast.Call) and call_fname(it) == "ndenumerate" and it.args and is_name(it.args[0], "real_wells"):
            main = lp
    if main is None:
        # index and well ID from two different traversals: zip(ndindex(shape), <wells>) pairs them correctly only if the wells
        # come in the array's own (row-major) order - a sorted / de-duplicated copy is in a different order in general
        from .common import seq_transformers

        for lp in loops:
            it = fv.res.resolve(lp.ast.iter, lp.id)
            if isinstance(it, ast.Call) and call_fname(it) == "zip" and any(call_fname(a) == "ndindex" for a in it.args):
                for a in it.args:
                    if any(isinstance(x, ast.Name) and x.id == "real_wells" for x in ast.walk(a)) and call_fname(a) != "ndindex":
                        tr = [t for t in seq_transformers(a) if t in ("unique", "sorted", "set", "sort", "frozenset")] + ([call_fname(a)] if call_fname(a) in ("unique", "sorted", "set") else [])
                        if tr:
                            ctx.rep.refuted(rule, f.qualname + "/index-pairing", f"the wells are visited as `{show(a)[:50]}` ({tr[0]}: in sorted order) while their index comes from ndindex (array order): "
                                            "sorted IDs are not in array order in general (column 100 sorts before column 11), so components are written at the index of a different well", where=f.where(lp.ast))
                            return
        raise AnalysisInconclusive(rule, f.qualname, "loop over ndenumerate(real_wells) not found")
    loopid = f"loop@{main.id}"
    body = fv.cfg.loop_body[main.id]
    # the store composition[cname][idx] = 1
    stores = [n for n in (fv.cfg.nodes[i] for i in body) if n.kind == "stmt" and isinstance(n.ast, ast.Assign) and isinstance(n.ast.targets[0], ast.Subscript) and isinstance(n.ast.targets[0].value, ast.Subscript)]
    if len(stores) != 1:
        ctx.rep.inconclusive(rule, f.qualname + "/one-hot", f"expected one element store of the initial fraction, found {len(stores)}")
        return
    st = stores[0]
    w = f.where(st.ast)
    idx = fv.res.resolve(st.ast.targets[0].slice, st.id)
    one = isinstance(st.ast.value, ast.Constant) and st.ast.value.value == 1
    ctx.rep.check(one and is_sym(idx, "idx") and idx.args[0].value == loopid, rule, f"{f.qualname}/one-hot", "initial fraction 1 is written at the loop's own index",
                  f"initial fraction store `{stmt_key(st.ast)}` is not `= 1` at the index of the current well", where=w)
    # only for non-empty wells
    nonempty = False
    for r, pol, _br in fv.atoms_at(st.id):
        if isinstance(r, ast.Compare) and len(r.ops) == 1 and isinstance(r.comparators[0], ast.Constant) and r.comparators[0].value == 0:
            lhs = r.left
            same_well = (isinstance(lhs, ast.Subscript) and is_name(lhs.value, "initial_volumes") and key(lhs.slice) == key(idx)) or (
                is_sym(lhs, "elem") and lhs.args[0].value == loopid and is_name(lhs.args[1], "initial_volumes"))
            if same_well:
                if (isinstance(r.ops[0], ast.Eq) and not pol) or (isinstance(r.ops[0], (ast.NotEq, ast.Gt)) and pol):
                    nonempty = True
    ctx.rep.check(nonempty, rule, f"{f.qualname}/non-empty-only", "components are created only for wells with a non-zero initial volume",
                  "a component is created for wells whose initial volume is 0 (or skipped for filled wells)", where=w)
    # arrays are zeros
    dict_name = st.ast.targets[0].value.value.id if isinstance(st.ast.targets[0].value.value, ast.Name) else None
    arrs = [n for n in (fv.cfg.nodes[i] for i in body) if n.kind == "stmt" and isinstance(n.ast, ast.Assign) and isinstance(n.ast.targets[0], ast.Subscript) and is_name(n.ast.targets[0].value, dict_name)
            and not isinstance(n.ast.targets[0].value, ast.Subscript)]
    okz = bool(arrs) and all(isinstance(n.ast.value, ast.Call) and call_fname(n.ast.value) in ("zeros_like", "zeros") for n in arrs)
    ctx.rep.check(okz, rule, f"{f.qualname}/zeros", "component arrays start as zeros", "a component array does not start as all-zero", where=w)
    # the component name
    cname = fv.res.resolve(st.ast.targets[0].value.slice, st.id)
    variants = list(cname.args) if is_sym(cname, "phi") else [cname]
    # unfold nested conditional expression / phi
    flat: List[ast.AST] = []

    def unfold(t):
        if is_sym(t, "phi"):
            for a in t.args:
                unfold(a)
        elif isinstance(t, ast.IfExp):
            flat.append(("if", t))
        else:
            flat.append(("plain", t))

    for v in variants:
        unfold(v)
    # dict.get(key, default) covers missing keys only: a well that is listed with the value None (the documented way of
    # saying "no name") would get the component name None instead of the default
    for kind, t in list(flat):
        if kind == "plain" and isinstance(t, ast.Call) and call_fname(t) == "get" and len(t.args) == 2 and not (isinstance(t.args[1], ast.Constant) and t.args[1].value is None):
            ctx.rep.refuted(rule, f"{f.qualname}/none-entry", f"the component name is `{show(t)[:70]}`: the default only replaces a missing key, an explicit None entry for a filled well "
                            "is used as the component name (all such wells share the component `None`)", where=w)
            unfold(t.args[1])
    multi_ok = None
    for kind, t in flat:
        if kind != "if":
            continue
        test, a, b_ = t.test, t.body, t.orelse
        cls = _multiwell_test(test)
        if cls is None:
            ctx.rep.inconclusive(rule, f"{f.qualname}/multiwell-test", f"unrecognised multi-well test `{show(test)[:60]}`", where=w)
            return
        if cls is False:
            ctx.rep.refuted(rule, f"{f.qualname}/multiwell-test", f"default names are made well-specific depending on `{show(test)[:60]}`, which is not 'the labware has more than one row/well': "
                            "wells of a multi-row plate (e.g. an 8x1 strip) would share one default name", where=w)
            return
        parts = template_parts(a) or []
        holes = [p for p in parts if isinstance(p, Hole)]
        dep = any(is_sym(h.expr, "elem") and h.expr.args[0].value == loopid for h in holes)
        single = is_name(b_, "name")
        multi_ok = dep and single
        ctx.rep.check(multi_ok, rule, f"{f.qualname}/default", "multi-well default name contains the well ID; single-well default is the labware name",
                      f"default names are `{show(a)[:40]}` (multi) / `{show(b_)[:30]}` (single): not well-specific resp. not the labware name", where=w)
    if multi_ok is None:
        # statement form of the choice (if is_multiwell: cname = f"{name}.{w}" else: cname = name): case split with conditions
        seen_multi = seen_single = False
        bad = None
        for conds, val in fv.alternatives(st.ast.targets[0].value.slice, st.id):
            mw = None
            for c_, p_ in conds:
                rc = fv.res.resolve(c_, st.id) if isinstance(c_, ast.Name) else c_
                cls = _multiwell_test(rc)
                if cls is True:
                    mw = p_
                elif cls is False and not any(is_sym(x, "elem") or (isinstance(x, ast.Name) and x.id in ("component_names", "initial_volumes")) for x in ast.walk(rc)):
                    bad = rc
            parts = template_parts(val) if isinstance(val, ast.JoinedStr) else None
            if parts is not None and mw is True:
                holes = [p for p in parts if isinstance(p, Hole)]
                if any(is_sym(h.expr, "elem") and h.expr.args[0].value == loopid for h in holes):
                    seen_multi = True
            elif is_name(val, "name") and mw is False:
                seen_single = True
        if bad is not None:
            ctx.rep.refuted(rule, f"{f.qualname}/multiwell-test", f"default names are made well-specific depending on `{show(bad)[:60]}`, which is not 'the labware has more than one row/well': "
                            "wells of a multi-row plate (e.g. an 8x1 strip) would share one default name", where=w)
            return
        if seen_multi and seen_single:
            multi_ok = True
            ctx.rep.holds(rule, f"{f.qualname}/default", "multi-well default name contains the well ID; single-well default is the labware name", where=w)
    if multi_ok is None:
        ctx.rep.inconclusive(rule, f"{f.qualname}/default", f"default-name choice not found in `{show(cname)[:80]}`", where=w)
    # explicit names win: component_names.get(w) of the same well
    explicit = any(kind == "plain" and isinstance(t, ast.Call) and call_fname(t) == "get" and t.args and is_sym(t.args[0], "elem") for kind, t in flat)
    ctx.rep.check(explicit, rule, f"{f.qualname}/explicit", "user-given names are looked up by the well of this iteration", "user-given component names are not looked up by the current well", where=w)


def _multiwell_test(test: ast.AST) -> Optional[bool]:
    """True: test is 'more than one row / well'; False: something else about the shape; None: unknown."""
    if not (isinstance(test, ast.Compare) and len(test.ops) == 1):
        return None
    cm = to_cmp(test, True)
    left = test.left
    txt = show(left).replace(" ", "")
    rows_like = txt in ("len(real_wells)", "real_wells.shape[0]", "numpy.shape(real_wells)[0]", "np.shape(real_wells)[0]", "real_wells.size", "numpy.size(real_wells)", "np.size(real_wells)")
    x = Poly.symbol(left)
    gt1 = cm == Cmp(x - Poly.const(1), ">") or cm == Cmp(x - Poly.const(2), ">=")
    if rows_like and gt1:
        return True
    if "real_wells" in txt or "shape" in txt:
        return False
    names = {n.id for n in ast.walk(test) if isinstance(n, ast.Name)}
    if names & {"initial_volumes", "component_names"} and "real_wells" not in names:
        # decided by the contents (how many wells are filled / named), not by the geometry of the labware
        return False
    return None


def trough_names(ctx) -> None:
    rule = "C05.default-name"
    f = ctx.prog.require_func("get_trough_component_names", rule)
    fv = ctx.fv(f)
    loops = [n for n in fv.cfg.nodes if n.kind == "for"]
    ret_names0 = {getattr(fv.alias_root(n.ast.value, n.id), "id", None) for n in fv.return_nodes()}
    if len(loops) != 1:
        # the loop that fills the returned dict
        loops = [lp_ for lp_ in loops if any(m.kind == "stmt" and isinstance(m.ast, ast.Assign) and isinstance(m.ast.targets[0], ast.Subscript) and isinstance(m.ast.targets[0].value, ast.Name)
                                             and m.ast.targets[0].value.id in ret_names0 for m in (fv.cfg.nodes[i] for i in fv.cfg.loop_body[lp_.id]))]
    if len(loops) != 1:
        ctx.rep.inconclusive(rule, f.qualname, "expected one loop over the columns")
        return
    lp = loops[0]
    loopid = f"loop@{lp.id}"
    body = fv.cfg.loop_body[lp.id]
    it = fv.res.resolve(lp.ast.iter, lp.id)
    ok_it = isinstance(it, ast.Call) and call_fname(it) == "enumerate" and isinstance(it.args[0], ast.Call) and call_fname(it.args[0]) == "zip" and [getattr(a, "id", None) for a in it.args[0].args] == ["column_names", "initial_volumes"]
    if not ok_it and isinstance(it, ast.Call) and call_fname(it) == "enumerate" and len(it.args) == 1 and is_name(strip_norm(it.args[0]), "column_names"):
        # the names alone, the volume of the column read as initial_volumes[<counter>] (both have one entry per column: shape guard)
        ok_it = True
    ctx.rep.check(ok_it, rule, f"{f.qualname}/iteration", "iterates enumerate(zip(column_names, initial_volumes))", f"iterates `{show(it)[:60]}`", where=f.where(lp.ast))
    # the dict that is returned, the stores into it, and the variable holding the name that is stored
    ret_names = {getattr(fv.alias_root(n.ast.value, n.id), "id", None) for n in fv.return_nodes()}
    key_stores = [n for n in (fv.cfg.nodes[i] for i in body) if n.kind == "stmt" and isinstance(n.ast, ast.Assign) and isinstance(n.ast.targets[0], ast.Subscript) and isinstance(n.ast.targets[0].value, ast.Name)
                  and n.ast.targets[0].value.id in ret_names]
    ok = False
    why = "the default column names are not column-specific for multi-column troughs / not the trough name for a single column"
    if len(key_stores) == 1:
        ks = key_stores[0]
        cols = Poly.symbol(ast.Name(id="columns", ctx=ast.Load()))
        has_multi = has_single = False
        bad = None
        for conds, val in fv.alternatives(ks.ast.value, ks.id):
            cms = [to_cmp(r, pol) for r, pol in conds if isinstance(r, ast.Compare) and len(r.ops) == 1]
            # a default name is chosen for every *filled* column without a name: the volume test is exactly `> 0`
            if isinstance(val, ast.JoinedStr) or is_name(val, "name"):
                vol_tests = [(r, pol) for r, pol in conds if isinstance(r, ast.Compare) and len(r.ops) == 1 and "initial_volumes" in key(r.left) and is_sym(r.left)
                             and isinstance(r.comparators[0], ast.Constant)]
                for r, pol in vol_tests:
                    x = r.left
                    cmv = to_cmp(r, pol)
                    if cmv is not None and cmv != Cmp(Poly.symbol(x), ">") and cmv != Cmp(Poly.symbol(x), "!="):
                        bad = f"default names are only given when `{cmv.pretty()[:60]}`: filled columns outside that range get no component name"
            if isinstance(val, ast.JoinedStr):
                holes = [p for p in template_parts(val) if isinstance(p, Hole)]
                dep = any(any(is_sym(s_, "idx") and s_.args[0].value == loopid for s_ in ast.walk(fv.res.resolve(h.expr, ks.id) if not any(is_sym(x) for x in ast.walk(h.expr)) else h.expr)) for h in holes)
                if dep and Cmp(cols - Poly.const(1), ">") in cms:
                    has_multi = True
                else:
                    bad = f"default `{show(val)[:50]}` does not contain the column number under columns > 1"
            elif is_name(val, "name"):
                if Cmp(Poly.const(1) - cols, ">=") in cms:
                    has_single = True
                else:
                    bad = "the trough name is used as default without establishing columns <= 1"
            elif isinstance(val, ast.Constant) and isinstance(val.value, str):
                bad = f"constant default name `{val.value}`"
        ok = has_multi and has_single and bad is None
        if bad:
            why += f" ({bad})"
    ctx.rep.check(ok, rule, f"{f.qualname}/default", "multi-column default name contains the column number; single-column default is the trough name", why, where=f.where())
    # keys: A{c+1:02d}
    keys = key_stores
    okk = False
    kslice = keys[0].ast.targets[0].slice if len(keys) == 1 else None
    if isinstance(kslice, ast.Name):
        kslice = fv.def_expr(kslice, keys[0].id)[0]  # the key held in a (single-definition) local
    if len(keys) == 1 and isinstance(kslice, ast.JoinedStr):
        parts = template_parts(kslice)
        holes = [p for p in parts if isinstance(p, Hole)]
        if len(holes) == 1 and parts[0] == "A" and holes[0].spec == "02d":
            h = fv.res.resolve(holes[0].expr, keys[0].id)
            okk = to_poly(h) == Poly.symbol(sym("idx", ast.Constant(value=loopid), it.args[0] if ok_it else it)) + Poly.const(1) and not fv.controlling(keys[0].id, within=body)
    ctx.rep.check(okk, rule, f"{f.qualname}/keys", "names are keyed by the row-A well of each column (A{c+1:02d}), for every column",
                  "component names are not keyed by A<column:02d> for every column", where=f.where())
