"""Finite-model evaluation of the well-ID tables that Labware.__init__ builds (`_wells`, `_indices`, `_positions`).

The syntactic rules (C04.alias, C08.formula, C20.parallel) read the four dict comprehensions of the constructor directly.
When the tables are built in another way (one nested loop filling both dicts, a helper that takes the row letters and a
stride, conditional expressions for the trough case, ...) those rules cannot read the formulas off the code any more.
This module is their fall-back: the constructor body (with new helpers already expanded into it, see sa/inline.py) is
interpreted by the small interpreter below for a table of geometries - nothing of the repository is imported or executed;
the interpreter knows literals, names, `self.<attr>`, arithmetic, comparisons, conditional expressions, f-strings,
subscripts/slices, comprehensions, for/if statements, stores into dicts/lists and a fixed list of pure builtins
(len, range, enumerate, zip, tuple, list, dict, sorted, ...; numpy.array of nested lists is kept as the nested list).
Anything else evaluates to UNKNOWN, which poisons whatever is computed from it; raising guards whose test is UNKNOWN are
assumed to pass (the scenarios are valid geometries). The three tables that come out are compared with the tables the
property prescribes. Agreement on the whole table of geometries is reported as HOLDS *for that table* (a bounded
argument, stated as such in the evidence); a geometry with a different entry is the witness of a REFUTED verdict; an
UNKNOWN table makes the verdict INCONCLUSIVE.
"""
from __future__ import annotations

import ast
import itertools
import re
from typing import Any, Dict, List, Optional, Tuple

ALPHABET = "ABCDEFGHIJKLMNOPQRSTUVWXYZ"

GEOMETRIES = [(2, 3, None), (3, 2, None), (1, 1, None), (1, 4, None), (4, 1, None), (8, 12, None), (26, 2, None),
              (1, 3, 2), (1, 2, 3), (1, 1, 1), (1, 3, 1), (1, 12, 8), (1, 2, 26),
              # three-digit column numbers: "A100" sorts before "A11" as text
              (2, 101, None), (1, 101, 2)]


class _Unknown:
    def __repr__(self):
        return "UNKNOWN"


UNK = _Unknown()


class NPArr:
    """a numpy array of well IDs, kept as nested lists"""

    def __init__(self, data):
        self.data = data

    @property
    def shape(self):
        d, out = self.data, []
        while isinstance(d, list):
            out.append(len(d))
            d = d[0] if d else None
        return tuple(out)


class EnumVal(int):
    """member of an IntEnum of the package (Tip): an int that remembers its class and name"""

    def __new__(cls, value, enum, name):
        o = int.__new__(cls, value)
        o.enum, o.member = enum, name
        return o

    @property
    def value(self):
        return int(self)

    @property
    def name(self):
        return self.member

    def __repr__(self):
        return f"{self.enum}.{self.member}"


class _Signal(Exception):
    def __init__(self, kind, value=None):
        self.kind, self.value = kind, value


def _stored(stmts) -> List[ast.AST]:
    out = []
    for st in stmts:
        for n in ast.walk(st):
            if isinstance(n, (ast.Name, ast.Attribute, ast.Subscript)) and isinstance(getattr(n, "ctx", None), ast.Store):
                out.append(n)
    return out


class IteratorReuse(Exception):
    pass


class OneShot:
    """zip / enumerate / reversed objects: iterators that can be consumed once. A second iteration is outside the fragment
    (what is left after a short-circuiting any() is not modelled): it makes the evaluation UNKNOWN rather than guessing."""

    def __init__(self, items):
        self.items = list(items)
        self.used = False

    def __iter__(self):
        if self.used:
            raise IteratorReuse()
        self.used = True
        return iter(self.items)


SAFE = {"len": len, "range": lambda *a: list(range(*a)), "enumerate": lambda x, start=0: OneShot(tuple(p) for p in enumerate(x, start)), "zip": lambda *a: OneShot(tuple(p) for p in zip(*a)),
        "tuple": tuple, "list": list, "dict": dict, "set": set, "sorted": sorted, "reversed": lambda x: OneShot(reversed(x)), "str": str, "int": int, "float": float, "bool": bool,
        "min": min, "max": max, "sum": sum, "abs": abs, "chr": chr, "ord": ord, "any": any, "all": all, "divmod": divmod, "round": round, "frozenset": frozenset}
TYPES = {"int": int, "float": float, "str": str, "bool": bool, "list": list, "tuple": tuple, "dict": dict}


class Interp:
    def __init__(self, selfn: str, params: Dict[str, Any], prog=None, module=None, depth: int = 0):
        self.selfn = selfn
        self.env: Dict[str, Any] = dict(params)
        self.attrs: Dict[str, Any] = {}
        self.steps = 0
        self.prog, self.module, self.depth = prog, module, depth
        self.enums: Dict[str, Dict[str, int]] = {}
        self.cls = None  # the class whose object `self` is (method calls on self are dispatched along its MRO)
        self.tainted = False  # a skipped statement may have ended the call
        self._modcache: Dict[str, Any] = {}

    def module_value(self, name: str):
        """a module-level name bound once to a display of evaluable things (table of tuples, Tip members, ...)"""
        if self.module is None or name not in getattr(self.module, "assigns", {}):
            return UNK
        if name in self._modcache:
            return self._modcache[name]
        self._modcache[name] = UNK  # cycles
        e = self.module.assigns[name]
        n_bind = sum(1 for st in self.module.tree.body for t in (st.targets if isinstance(st, ast.Assign) else [st.target] if isinstance(st, (ast.AnnAssign, ast.AugAssign)) else [])
                     if isinstance(t, ast.Name) and t.id == name)
        if n_bind == 1 and isinstance(e, (ast.Tuple, ast.List, ast.Dict, ast.Set, ast.Constant, ast.Attribute, ast.BinOp, ast.Subscript)):
            top = Interp("§noself", {}, self.prog, self.module, self.depth + 1)
            top.enums = self.enums
            top._modcache = self._modcache
            v = top.ev(e)
            if isinstance(v, (list, dict, set)):
                v = _freeze(v)
            self._modcache[name] = v
        return self._modcache[name]

    def call_method(self, name: str, args, kw):
        """a method called on self: the definition that the object's class resolves to, interpreted on the same attributes"""
        if self.prog is None or self.cls is None or self.depth >= 3:
            return UNK
        m = self.prog.find_method(self.cls, name)
        if m is None or not m.params:
            return UNK
        a = m.node.args
        decos = {ast.unparse(d) for d in m.node.decorator_list}
        if a.vararg or a.kwarg or decos - {"staticmethod"}:
            return UNK
        formal = m.params if "staticmethod" in decos else m.params[1:]
        if len(args) > len(formal):
            return UNK
        env = dict(zip(formal, args))
        for k_, v_ in kw.items():
            if k_ not in formal or k_ in env:
                return UNK
            env[k_] = v_
        for p_ in formal:
            if p_ not in env:
                d = m.param_default(p_)
                if not isinstance(d, ast.Constant):
                    return UNK
                env[p_] = d.value
        for cn, cv in module_constants(m.module).items():
            env.setdefault(cn, cv)
        sub = Interp("§noself" if "staticmethod" in decos else m.params[0], env, self.prog, m.module, self.depth + 1)
        sub.enums, sub.cls, sub.attrs = self.enums, self.cls, self.attrs
        try:
            sub.block(list(m.node.body))
        except _Signal as s_:
            self.tainted = self.tainted or sub.tainted or s_.kind not in ("return", "raise")
            if s_.kind == "return":
                return s_.value
            if s_.kind == "raise":
                raise
            return UNK
        self.tainted = self.tainted or sub.tainted
        return UNK if sub.tainted else None

    def call_package_function(self, name: str, args, kw):
        """a module-level function of the package called by its bare name: interpreted recursively (depth <= 3)"""
        if self.prog is None or self.module is None or self.depth >= 3:
            return UNK
        r = self.prog.resolve_name(self.module, name)
        g = r if hasattr(r, "node") and hasattr(r, "params") and getattr(r, "cls", None) is None else None
        if g is None:
            return UNK
        a = g.node.args
        if a.vararg or a.kwarg or len(args) > len(g.params):
            return UNK
        env = {}
        for p_, v_ in zip(g.params, args):
            env[p_] = v_
        for k_, v_ in kw.items():
            if k_ not in g.params or k_ in env:
                return UNK
            env[k_] = v_
        for p_ in g.params:
            if p_ not in env:
                d = g.param_default(p_)
                if not isinstance(d, ast.Constant):
                    return UNK
                env[p_] = d.value
        # module-level constants of the callee's module
        for cn, cv in module_constants(g.module).items():
            env.setdefault(cn, cv)
        sub = Interp("§noself", env, self.prog, g.module, self.depth + 1)
        sub.enums = self.enums
        try:
            sub.block(list(g.node.body))
        except _Signal as s_:
            self.tainted = self.tainted or sub.tainted or s_.kind not in ("return", "raise")
            if s_.kind == "return":
                return s_.value
            if s_.kind == "raise":
                raise
            return UNK
        self.tainted = self.tainted or sub.tainted
        return UNK if sub.tainted else None

    # -------------------------------------------------------------- statements
    def poison(self, stmts) -> None:
        # statements that are skipped may have ended the call (return / raise): from here on, reaching a `raise` or a
        # `return` proves nothing about what the real function does
        for st in stmts:
            for n in ast.walk(st):
                if isinstance(n, (ast.Return, ast.Raise)):
                    self.tainted = True
        for t in _stored(stmts):
            root = t
            while isinstance(root, ast.Subscript):
                root = root.value
            if isinstance(root, ast.Name):
                self.env[root.id] = UNK
            elif isinstance(root, ast.Attribute) and isinstance(root.value, ast.Name) and root.value.id == self.selfn:
                self.attrs[root.attr] = UNK

    def block(self, stmts) -> None:
        for st in stmts:
            self.stmt(st)

    def stmt(self, st: ast.stmt) -> None:
        self.steps += 1
        if self.steps > 200000:
            raise _Signal("abort")
        if isinstance(st, ast.Expr):
            v = st.value
            if isinstance(v, ast.Call) and isinstance(v.func, ast.Attribute) and v.func.attr in ("append", "extend", "update", "setdefault", "add", "insert"):
                recv = self.ev(v.func.value)
                args = [self.ev(a) for a in v.args]
                if recv is UNK or any(a is UNK for a in args) or v.keywords:
                    self.poison_expr(v.func.value)
                else:
                    try:
                        getattr(recv, v.func.attr)(*args)
                    except Exception:
                        self.poison_expr(v.func.value)
            elif isinstance(v, ast.Call) and isinstance(v.func, ast.Name):
                self.ev(v)  # a package function called for its checks: a raise in it ends this call too
            return
        if isinstance(st, ast.Assign):
            val = self.ev(st.value)
            for t in st.targets:
                self.assign(t, val)
            return
        if isinstance(st, ast.AnnAssign):
            if st.value is not None:
                self.assign(st.target, self.ev(st.value))
            return
        if isinstance(st, ast.AugAssign):
            cur = self.ev(ast.copy_location(_as_load(st.target), st.target))
            val = self.ev(st.value)
            self.assign(st.target, self.binop(st.op, cur, val))
            return
        if isinstance(st, ast.If):
            t = self.ev(st.test)
            if t is UNK:
                # (a raising guard whose test cannot be evaluated is assumed to pass - see run_function)
                only_raises = all(isinstance(x, ast.Raise) for x in st.body) and not st.orelse
                if not only_raises:
                    self.poison(st.body + st.orelse)
                return
            self.block(st.body if t else st.orelse)
            return
        if isinstance(st, ast.For):
            it = self.ev(st.iter)
            if it is UNK or isinstance(it, (str,)) and False:
                self.poison([st])
                return
            try:
                items = list(it.data if isinstance(it, NPArr) else it)
            except TypeError:
                self.poison([st])
                return
            for item in items:
                self.assign(st.target, item)
                try:
                    self.block(st.body)
                except _Signal as s:
                    if s.kind == "break":
                        break
                    if s.kind == "continue":
                        continue
                    raise
            else:
                self.block(st.orelse)
            return
        if isinstance(st, ast.Return):
            v_ = self.ev(st.value) if st.value is not None else None
            raise _Signal("return", UNK if self.tainted else v_)
        if isinstance(st, ast.Raise):
            exc = st.exc.func if isinstance(st.exc, ast.Call) else st.exc
            raise _Signal("unknown-path" if self.tainted else "raise", exc.id if isinstance(exc, ast.Name) else None)
        if isinstance(st, ast.Break):
            raise _Signal("break")
        if isinstance(st, ast.Continue):
            raise _Signal("continue")
        if isinstance(st, ast.Assert):
            t = self.ev(st.test)
            if t is not UNK and not t:
                raise _Signal("raise")
            return
        if isinstance(st, ast.Try):
            try:
                self.block(st.body)
            except _Signal as s:
                if s.kind == "raise" and st.handlers:
                    # whether a handler takes it is not modelled: everything the statement may bind is unknown from here
                    self.poison([st])
                    self.block(st.finalbody)
                    return
                raise
            self.block(st.orelse)
            self.block(st.finalbody)
            return
        if isinstance(st, (ast.Pass, ast.Import, ast.ImportFrom, ast.Global, ast.Nonlocal)):
            return
        self.poison([st])

    def poison_expr(self, e: ast.AST) -> None:
        root = e
        while isinstance(root, ast.Subscript):
            root = root.value
        if isinstance(root, ast.Name):
            self.env[root.id] = UNK
        elif isinstance(root, ast.Attribute) and isinstance(root.value, ast.Name) and root.value.id == self.selfn:
            self.attrs[root.attr] = UNK

    def assign(self, target: ast.AST, val: Any) -> None:
        if isinstance(target, ast.Name):
            self.env[target.id] = val
        elif isinstance(target, ast.Attribute) and isinstance(target.value, ast.Name) and target.value.id == self.selfn:
            self.attrs[target.attr] = val
        elif isinstance(target, (ast.Tuple, ast.List)):
            vals = None
            if val is not UNK:
                try:
                    vals = list(val.data if isinstance(val, NPArr) else val)
                except TypeError:
                    vals = None
            if vals is None or len(vals) != len(target.elts) or any(isinstance(t, ast.Starred) for t in target.elts):
                for t in target.elts:
                    self.assign(t, UNK)
            else:
                for t, v in zip(target.elts, vals):
                    self.assign(t, v)
        elif isinstance(target, ast.Subscript):
            cont = self.ev(target.value)
            k = self.ev(target.slice) if not isinstance(target.slice, ast.Slice) else UNK
            if cont is UNK or k is UNK or val is UNK and False:
                self.poison_expr(target.value)
                return
            try:
                cont[k] = val
            except Exception:
                self.poison_expr(target.value)
        else:
            pass

    # -------------------------------------------------------------- expressions
    def binop(self, op, a, b):
        if a is UNK or b is UNK:
            return UNK
        try:
            if isinstance(op, ast.Add):
                return a + b
            if isinstance(op, ast.Sub):
                return a - b
            if isinstance(op, ast.Mult):
                return a * b
            if isinstance(op, ast.FloorDiv):
                return a // b
            if isinstance(op, ast.Div):
                return a / b
            if isinstance(op, ast.Mod):
                return a % b
            if isinstance(op, ast.Pow):
                return a ** b if abs(b) < 64 else UNK
            if isinstance(op, ast.BitOr):
                return a | b
            if isinstance(op, ast.BitAnd):
                return a & b
        except Exception:
            return UNK
        return UNK

    def ev(self, e: Optional[ast.AST], local: Optional[Dict[str, Any]] = None) -> Any:
        if e is None:
            return None
        if local:
            saved = {k: self.env.get(k, _MISSING) for k in local}
            self.env.update(local)
            try:
                return self.ev(e)
            finally:
                for k, v in saved.items():
                    if v is _MISSING:
                        self.env.pop(k, None)
                    else:
                        self.env[k] = v
        if isinstance(e, ast.Constant):
            return e.value
        if isinstance(e, ast.Name):
            if e.id in self.env:
                return self.env[e.id]
            if e.id in self.enums:
                return [EnumVal(v, e.id, k) for k, v in self.enums[e.id].items()]
            if e.id in ("True", "False", "None"):
                return {"True": True, "False": False, "None": None}[e.id]
            return self.module_value(e.id)
        if isinstance(e, ast.Attribute):
            if isinstance(e.value, ast.Name) and e.value.id in self.enums and e.value.id not in self.env:
                members = self.enums[e.value.id]
                return EnumVal(members[e.attr], e.value.id, e.attr) if e.attr in members else UNK
            if isinstance(e.value, ast.Name) and e.value.id == self.selfn:
                # public read-only views of the private tables
                if e.attr in self.attrs:
                    return self.attrs[e.attr]
                if "_" + e.attr in self.attrs:
                    return self.attrs["_" + e.attr]
                return UNK
            if isinstance(e.value, ast.Name) and e.value.id == "string" and e.attr == "ascii_uppercase":
                return ALPHABET
            if isinstance(e.value, ast.Name) and e.value.id == "re" and "re" not in self.env and e.attr.isupper() and hasattr(re, e.attr):
                return getattr(re, e.attr)
            base = self.ev(e.value)
            if isinstance(base, NPArr) and e.attr == "shape":
                return base.shape
            if isinstance(base, EnumVal) and e.attr in ("value", "name"):
                return int(base) if e.attr == "value" else base.member
            return UNK
        if isinstance(e, ast.JoinedStr):
            out = ""
            for v in e.values:
                if isinstance(v, ast.Constant):
                    out += str(v.value)
                else:
                    val = self.ev(v.value)
                    if val is UNK:
                        return UNK
                    spec = ""
                    if v.format_spec is not None:
                        spec = self.ev(v.format_spec)
                        if spec is UNK:
                            return UNK
                    try:
                        if v.conversion == 114:
                            val = repr(val)
                        elif v.conversion == 115:
                            val = str(val)
                        out += format(val, spec)
                    except Exception:
                        return UNK
            return out
        if isinstance(e, (ast.Tuple, ast.List, ast.Set)):
            vals = [self.ev(x) for x in e.elts]
            if any(isinstance(x, ast.Starred) for x in e.elts):
                return UNK
            if isinstance(e, ast.Tuple):
                return tuple(vals)
            if isinstance(e, ast.Set):
                return UNK if any(v is UNK for v in vals) else set(vals)
            return vals
        if isinstance(e, ast.Dict):
            out = {}
            for k, v in zip(e.keys, e.values):
                if k is None:
                    return UNK
                kv = self.ev(k)
                if kv is UNK:
                    return UNK
                out[kv] = self.ev(v)
            return out
        if isinstance(e, (ast.ListComp, ast.SetComp, ast.GeneratorExp, ast.DictComp)):
            results: List[Any] = []
            bad = [False]

            def rec(i: int):
                if bad[0]:
                    return
                if i == len(e.generators):
                    if isinstance(e, ast.DictComp):
                        results.append((self.ev(e.key), self.ev(e.value)))
                    else:
                        results.append(self.ev(e.elt))
                    return
                g = e.generators[i]
                it = self.ev(g.iter)
                if it is UNK:
                    bad[0] = True
                    return
                try:
                    items = list(it.data if isinstance(it, NPArr) else it)
                except TypeError:
                    bad[0] = True
                    return
                for item in items:
                    self.assign(g.target, item)
                    conds = [self.ev(c) for c in g.ifs]
                    if any(c is UNK for c in conds):
                        bad[0] = True
                        return
                    if all(conds):
                        rec(i + 1)

            names = {x.id for g in e.generators for x in ast.walk(g.target) if isinstance(x, ast.Name)}
            saved = {k: self.env.get(k, _MISSING) for k in names}
            try:
                rec(0)
            finally:
                for k, v in saved.items():
                    if v is _MISSING:
                        self.env.pop(k, None)
                    else:
                        self.env[k] = v
            if bad[0]:
                return UNK
            if isinstance(e, ast.DictComp):
                if any(k is UNK for k, _ in results):
                    return UNK
                return dict(results)
            if isinstance(e, ast.SetComp):
                return UNK if any(r is UNK for r in results) else set(results)
            return results
        if isinstance(e, ast.BinOp):
            return self.binop(e.op, self.ev(e.left), self.ev(e.right))
        if isinstance(e, ast.UnaryOp):
            v = self.ev(e.operand)
            if v is UNK:
                return UNK
            try:
                if isinstance(e.op, ast.Not):
                    return not v
                if isinstance(e.op, ast.USub):
                    return -v
                if isinstance(e.op, ast.UAdd):
                    return +v
            except Exception:
                return UNK
            return UNK
        if isinstance(e, ast.BoolOp):
            last: Any = None
            for v in e.values:
                last = self.ev(v)
                if last is UNK:
                    return UNK
                if isinstance(e.op, ast.And) and not last:
                    return last
                if isinstance(e.op, ast.Or) and last:
                    return last
            return last
        if isinstance(e, ast.Compare):
            left = self.ev(e.left)
            for op, right_e in zip(e.ops, e.comparators):
                right = self.ev(right_e)
                if left is UNK or right is UNK:
                    return UNK
                try:
                    r = {ast.Eq: lambda a, b: a == b, ast.NotEq: lambda a, b: a != b, ast.Lt: lambda a, b: a < b, ast.LtE: lambda a, b: a <= b, ast.Gt: lambda a, b: a > b,
                         ast.GtE: lambda a, b: a >= b, ast.Is: lambda a, b: a is b, ast.IsNot: lambda a, b: a is not b, ast.In: lambda a, b: a in b, ast.NotIn: lambda a, b: a not in b}[type(op)](left, right)
                except Exception:
                    return UNK
                if not r:
                    return False
                left = right
            return True
        if isinstance(e, ast.IfExp):
            t = self.ev(e.test)
            if t is UNK:
                return UNK
            return self.ev(e.body) if t else self.ev(e.orelse)
        if isinstance(e, ast.Subscript):
            base = self.ev(e.value)
            if base is UNK:
                return UNK
            data = base.data if isinstance(base, NPArr) else base
            try:
                if isinstance(e.slice, ast.Slice):
                    lo, hi, stp = self.ev(e.slice.lower), self.ev(e.slice.upper), self.ev(e.slice.step)
                    if UNK in (lo, hi, stp):
                        return UNK
                    return data[lo:hi:stp]
                k = self.ev(e.slice)
                if k is UNK:
                    return UNK
                if isinstance(base, NPArr) and isinstance(k, tuple):
                    if len(k) == 2 and all(isinstance(x, int) for x in k):
                        return data[k[0]][k[1]]
                    return UNK
                return data[k]
            except Exception:
                return UNK
        if isinstance(e, ast.Call):
            return self.call(e)
        if isinstance(e, ast.Starred):
            return UNK
        return UNK

    def call(self, e: ast.Call) -> Any:
        fn = e.func
        if any(isinstance(a, ast.Starred) for a in e.args) or any(k.arg is None for k in e.keywords):
            return UNK
        args = [self.ev(a) for a in e.args]
        kw = {k.arg: self.ev(k.value) for k in e.keywords}
        if isinstance(fn, ast.Name):
            if fn.id == "isinstance" and len(e.args) == 2:
                specs = e.args[1].elts if isinstance(e.args[1], ast.Tuple) else [e.args[1]]
                if args[0] is UNK:
                    return UNK
                v0 = args[0]
                plain = isinstance(v0, (int, float, str, bool, list, tuple, dict, set, type(None))) and not isinstance(v0, NPArr)
                undecided = False
                for sp in specs:
                    if isinstance(sp, ast.Name) and sp.id in self.enums:
                        if isinstance(v0, EnumVal) and v0.enum == sp.id:
                            return True
                        continue
                    if isinstance(sp, ast.Name) and sp.id in TYPES:
                        if isinstance(v0, TYPES[sp.id]):
                            return True
                        continue
                    dotted = ast.unparse(sp)
                    tail = dotted.split(".")[-1]
                    if plain and dotted.split(".")[0] in ("np", "numpy") and tail in ("integer", "floating", "number", "ndarray", "generic", "bool_", "str_", "int64", "int32", "float64", "float32"):
                        continue  # a builtin value is no instance of a numpy type
                    if plain and tail in ("Integral",):
                        if isinstance(v0, int):
                            return True
                        continue
                    if plain and tail in ("Number", "Real"):
                        if isinstance(v0, (int, float)):
                            return True
                        continue
                    if plain and tail in ("Iterable", "Sequence", "Collection", "Sized"):
                        if isinstance(v0, (str, list, tuple, dict, set)):
                            return True
                        if isinstance(v0, (int, float, bool, type(None))):
                            continue
                    undecided = True
                return UNK if undecided else False
            if fn.id in SAFE:
                if any(a is UNK for a in args) or any(v is UNK for v in kw.values()):
                    return UNK
                try:
                    args = [a.data if isinstance(a, NPArr) else a for a in args]
                    return SAFE[fn.id](*args, **kw)
                except Exception:
                    return UNK
            if any(a is UNK for a in args) or any(v is UNK for v in kw.values()):
                return UNK
            return self.call_package_function(fn.id, args, kw)
        if isinstance(fn, ast.Attribute):
            # numpy.array / asarray of nested lists
            if isinstance(fn.value, ast.Name) and fn.value.id in ("np", "numpy") and fn.attr in ("array", "asarray") and len(args) == 1:
                if args[0] is UNK or any(v is UNK for v in kw.values()) and False:
                    return UNK
                return NPArr(_deep_list(args[0])) if _no_unknown(args[0]) else UNK
            if isinstance(fn.value, ast.Name) and fn.value.id in ("np", "numpy") and fn.attr == "atleast_1d" and len(args) == 1 and not kw:
                a0 = args[0]
                if isinstance(a0, NPArr):
                    return a0
                if isinstance(a0, (list, tuple)) and _no_unknown(a0):
                    return NPArr(_deep_list(list(a0)))
                if isinstance(a0, (str, int, float)) and not isinstance(a0, bool):
                    return NPArr([a0])
                return UNK
            if isinstance(fn.value, ast.Name) and fn.value.id in ("np", "numpy") and fn.attr in ("round", "around", "round_") and 1 <= len(args) <= 2:
                dec = kw.get("decimals", args[1] if len(args) == 2 else 0)
                x_ = args[0]
                if isinstance(x_, (int, float)) and not isinstance(x_, bool) and isinstance(dec, int) and not isinstance(dec, bool) and set(kw) <= {"decimals"}:
                    # a Python number: numpy rounds half to even like round(); the result prints like the float
                    return x_ if isinstance(x_, int) and dec >= 0 else float(round(x_, dec))
                return UNK
            if isinstance(fn.value, ast.Name) and fn.value.id == "itertools" and fn.attr == "product" and not kw:
                if any(a is UNK for a in args):
                    return UNK
                try:
                    return [tuple(p) for p in itertools.product(*args)]
                except Exception:
                    return UNK
            if isinstance(fn.value, ast.Name) and fn.value.id == "re" and "re" not in self.env:
                if any(a is UNK for a in args) or any(v is UNK for v in kw.values()):
                    return UNK
                if fn.attr in ("compile", "match", "fullmatch", "search", "findall", "split", "sub", "escape"):
                    try:
                        return getattr(re, fn.attr)(*args, **kw)
                    except Exception:
                        return UNK
                return UNK
            if isinstance(fn.value, ast.Name) and fn.value.id == self.selfn and self.cls is not None and fn.value.id not in self.env:
                if any(a is UNK for a in args) or any(v is UNK for v in kw.values()):
                    return UNK
                return self.call_method(fn.attr, args, kw)
            recv = self.ev(fn.value)
            if recv is UNK or any(a is UNK for a in args):
                return UNK
            try:
                if isinstance(recv, re.Pattern) and fn.attr in ("match", "fullmatch", "search", "findall", "split", "sub"):
                    return getattr(recv, fn.attr)(*args, **kw)
                if isinstance(recv, re.Match) and fn.attr in ("group", "groups", "groupdict", "start", "end", "span"):
                    r = getattr(recv, fn.attr)(*args, **kw)
                    return r
                if isinstance(recv, dict) and fn.attr in ("items", "keys", "values", "get", "copy"):
                    r = getattr(recv, fn.attr)(*args)
                    return [tuple(x) for x in r] if fn.attr == "items" else list(r) if fn.attr in ("keys", "values") else r
                if isinstance(recv, (list, tuple, str)) and fn.attr in ("index", "count", "copy", "upper", "lower", "join", "startswith", "endswith", "zfill", "format", "rjust"):
                    return getattr(recv, fn.attr)(*args, **kw)
                if isinstance(recv, NPArr) and fn.attr in ("tolist", "copy"):
                    return _deep_list(recv.data) if fn.attr == "tolist" else NPArr(_deep_list(recv.data))
                if isinstance(recv, NPArr) and fn.attr == "reshape" and len(recv.shape) in (1, 2) and kw.get("order", "C") == "C":
                    dims = list(args[0]) if len(args) == 1 and isinstance(args[0], (tuple, list)) else list(args)
                    flat = list(recv.data) if len(recv.shape) == 1 else [x for row in recv.data for x in row]
                    if len(dims) == 2 and all(isinstance(d_, int) and not isinstance(d_, bool) for d_ in dims):
                        r_, c_ = dims
                        if r_ == -1 and c_ > 0 and len(flat) % c_ == 0:
                            r_ = len(flat) // c_
                        if c_ == -1 and r_ > 0 and len(flat) % r_ == 0:
                            c_ = len(flat) // r_
                        if r_ >= 0 and c_ >= 0 and r_ * c_ == len(flat):
                            return NPArr([flat[i * c_:(i + 1) * c_] for i in range(r_)])
                        raise _Signal("raise")
                    if len(dims) == 1 and dims[0] in (-1, len(flat)):
                        return NPArr(flat)
                    return UNK
                if isinstance(recv, NPArr) and fn.attr in ("flatten", "ravel") and len(recv.shape) == 1 and set(kw) <= {"order"} and len(args) <= 1:
                    return NPArr(list(recv.data))
                if isinstance(recv, NPArr) and fn.attr in ("flatten", "ravel") and len(recv.shape) == 2:
                    order = kw.get("order", args[0] if args else "C")
                    rows = recv.data
                    if order == "F":
                        return NPArr([rows[r][c] for c in range(len(rows[0])) for r in range(len(rows))] if rows else [])
                    return NPArr([x for row in rows for x in row])
            except Exception:
                return UNK
        return UNK


_MISSING = object()


def _as_load(t: ast.AST) -> ast.AST:
    import copy

    n = copy.deepcopy(t)
    for x in ast.walk(n):
        if hasattr(x, "ctx"):
            x.ctx = ast.Load()
    return n


def _freeze(v):
    # module-level tables are read-only for the interpreted calls: hand out copies
    import copy as _copy

    return _copy.deepcopy(v)


def _no_unknown(v) -> bool:
    if v is UNK:
        return False
    if isinstance(v, (list, tuple)):
        return all(_no_unknown(x) for x in v)
    return True


def _deep_list(v):
    if isinstance(v, (list, tuple)):
        return [_deep_list(x) for x in v]
    return v


def expected(rows: int, columns: int, virtual_rows: Optional[int]):
    R = rows if virtual_rows is None else virtual_rows
    letters = ALPHABET[:R]
    wells = [[f"{row}{col:02d}" for col in range(1, columns + 1)] for row in letters]
    indices = {f"{row}{col:02d}": ((r if virtual_rows is None else 0), c) for r, row in enumerate(letters) for c, col in enumerate(range(1, columns + 1))}
    positions = {f"{row}{col:02d}": 1 + c * R + r for r, row in enumerate(letters) for c, col in enumerate(range(1, columns + 1))}
    return {"_wells": wells, "_indices": indices, "_positions": positions}


_CACHE: Dict[int, Any] = {}


def tables(ctx) -> List[Tuple[Tuple[int, int, Optional[int]], Dict[str, Any]]]:
    """[(geometry, {attr: value | UNK})] for every geometry of the table (cached per analysis context)"""
    if id(ctx) in _CACHE:
        return _CACHE[id(ctx)]
    f = ctx.prog.require_func("Labware.__init__", "init-model")
    selfn = f.params[0]
    out = []
    for rows, columns, vr in GEOMETRIES:
        params = {"name": "lw", "rows": rows, "columns": columns, "min_volume": 0, "max_volume": 100, "initial_volumes": UNK, "virtual_rows": vr, "component_names": None}
        for p in f.params[1:]:
            params.setdefault(p, UNK)
        for cn, cv in f.module.assigns.items():
            if isinstance(cv, ast.Constant):
                params.setdefault(cn, cv.value)
        it = Interp(selfn, params, ctx.prog, f.module)
        it.cls = f.cls
        try:
            it.block([s for s in f.node.body])
        except IteratorReuse:
            out.append(((rows, columns, vr), {k: UNK for k in ("_wells", "_indices", "_positions")}))
            continue
        except _Signal as s:
            if s.kind not in ("return",):
                out.append(((rows, columns, vr), {k: UNK for k in ("_wells", "_indices", "_positions")}))
                continue
        got = {}
        for k in ("_wells", "_indices", "_positions"):
            v = it.attrs.get(k, UNK)
            got[k] = v.data if isinstance(v, NPArr) else v
        out.append(((rows, columns, vr), got))
    _CACHE[id(ctx)] = out
    return out


def verdict(ctx, attr: str) -> Tuple[str, str]:
    """('holds' | 'refuted' | 'unknown', detail) for one of the three tables"""
    n = 0
    for (rows, columns, vr), got in tables(ctx):
        v = got.get(attr, UNK)
        if not _no_unknown(v) or (isinstance(v, dict) and not all(_no_unknown(x) for x in v.values())):
            return "unknown", f"`{attr}` could not be evaluated for rows={rows}, columns={columns}, virtual_rows={vr} (construct outside the interpreter's fragment)"
        want = expected(rows, columns, vr)[attr]
        v = _deep_list(v) if attr == "_wells" else v
        if isinstance(v, dict):
            v = {k: (tuple(x) if isinstance(x, (list, tuple)) else x) for k, x in v.items()}
        if v != want:
            if isinstance(want, dict) and isinstance(v, dict):
                keys = sorted(set(want) | set(v))
                bad = next((k for k in keys if want.get(k, "<missing>") != v.get(k, "<missing>")), None)
                return "refuted", (f"for rows={rows}, columns={columns}, virtual_rows={vr} the constructor's `{attr}` maps {bad!r} to {v.get(bad, '<no entry>')!r}; "
                                   f"the property requires {want.get(bad, '<no entry>')!r}")
            return "refuted", f"for rows={rows}, columns={columns}, virtual_rows={vr} the constructor's `{attr}` is {str(v)[:80]}; the property requires {str(want)[:80]}"
        n += 1
    return "holds", f"`{attr}` equals the prescribed table for all {n} geometries of the evaluation table (bounded argument)"


def module_constants(module) -> Dict[str, Any]:
    """Module-level names bound to a literal, or to a regular expression compiled from literals"""
    out: Dict[str, Any] = {}
    for cn, cv in module.assigns.items():
        if isinstance(cv, ast.Constant):
            out[cn] = cv.value
    for cn, cv in module.assigns.items():
        if isinstance(cv, ast.Call) and ast.unparse(cv.func) == "re.compile":
            v = Interp("§noself", dict(out)).ev(cv)
            if v is not UNK:
                out[cn] = v
    return out


def run_function(f, params: Dict[str, Any], prog=None, enums=None) -> Tuple[str, Any]:
    """Interpret a (helper-expanded) function body for concrete arguments: ('return', value) | ('raise', None) | ('unknown', why).
    Raising guards whose test is UNKNOWN are assumed to pass, so 'raise' means: a guard that could be evaluated rejected the call."""
    selfn = f.params[0] if f.cls is not None and f.params else "§noself"
    env = dict(params)
    for p in f.params:
        if p not in env and p != selfn:
            d = f.param_default(p)
            env[p] = d.value if isinstance(d, ast.Constant) else UNK
    for cn, cv in module_constants(f.module).items():
        env.setdefault(cn, cv)
    if prog is not None:
        # statements of helpers of other modules expanded into this body (sa/inline.py) still name their module's constants
        free = {n.id for n in ast.walk(f.node) if isinstance(n, ast.Name) and isinstance(n.ctx, ast.Load)} - set(env)
        for name_ in sorted(free):
            if name_ in f.module.assigns or name_ in getattr(f.module, "functions", {}) or name_ in getattr(f.module, "classes", {}):
                continue
            hits = [m for m in prog.modules.values() if name_ in m.assigns and m is not f.module]
            if len(hits) == 1:
                mc = module_constants(hits[0])
                if name_ in mc:
                    env[name_] = mc[name_]
    it = Interp(selfn, env, prog, f.module)
    it.cls = f.cls if selfn not in env else None
    it.enums = dict(enums or {})
    try:
        it.block(list(f.node.body))
    except IteratorReuse:
        return "unknown", "an iterator is consumed twice"
    except _Signal as s:
        if s.kind == "return":
            return "return", s.value
        if s.kind == "raise":
            return "raise", s.value
        return "unknown", s.kind
    return "return", None


def grid_helpers_verdict(ctx, name: str) -> Tuple[str, str]:
    """make_well_array(R, C) / make_well_index_dict(R, C) of transform.py evaluated for a table of shapes and compared with
    the prescribed grid  [[<letter r><c+1:02d>]]  /  {id: (r, c)}."""
    g = ctx.prog.func(name)
    if g is None:
        return "unknown", "helper not found"
    n = 0
    for R, C in ((1, 1), (2, 3), (3, 2), (8, 12), (26, 2), (1, 12), (4, 1), (2, 101)):
        kind, val = run_function(g, {g.params[0]: R, g.params[1]: C}, ctx.prog)
        if kind != "return" or not _no_unknown(val.data if isinstance(val, NPArr) else val) or (isinstance(val, dict) and not all(_no_unknown(x) for x in val.values())):
            return "unknown", f"{name}({R}, {C}) could not be evaluated (construct outside the interpreter's fragment)"
        if name == "make_well_array":
            want = [[f"{ALPHABET[r]}{c + 1:02d}" for c in range(C)] for r in range(R)]
            got = _deep_list(val.data if isinstance(val, NPArr) else val)
        else:
            want = {f"{ALPHABET[r]}{c + 1:02d}": (r, c) for r in range(R) for c in range(C)}
            got = {k: (tuple(v) if isinstance(v, (list, tuple)) else v) for k, v in val.items()} if isinstance(val, dict) else val
        if got != want:
            return "refuted", f"{name}({R}, {C}) evaluates to {str(got)[:90]}; the property requires {str(want)[:90]}"
        n += 1
    return "holds", f"{name}(R, C) equals the prescribed grid for all {n} shapes of the evaluation table (bounded argument)"
