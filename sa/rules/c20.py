"""C20 - every labware the constructors accept is internally consistent (validation-guard table + construction)."""
from __future__ import annotations

import ast
import itertools
from typing import Dict, FrozenSet, List, Optional, Set, Tuple

from ..canon import Cmp, Poly, to_cmp, to_poly
from ..defuse import is_sym, key, show, strip_norm
from ..engine import own_walk
from ..model import AnalysisInconclusive
from .common import attr_of_name, call_fname, is_name, raise_class, same_seq, stmt_key

EXPLANATION = (
    "C20: for each unrepresentable specification named in the property a raising guard (ValueError) must dominate the "
    "first state store of Labware.__init__ : the raising condition of every guard is expanded into a DNF over atomic "
    "comparisons in canonical form, with a flag whether the literal also fires for NaN operands, and matched against a "
    "requirement table (non-int / < 1 sizes, > 26 rows, virtual rows only with one row, NaN-rejecting min/max checks, "
    "negative / non-finite / too large initial volumes). Construction: volumes reshaped row-major to (rows, columns) "
    "and copied, ID structures from the same dimensions, history = one snapshot + 'initial', Trough broadcasts only "
    "true scalars and validates per-column lengths."
)
ASSUMPTIONS = ["comparisons with NaN are False (!= is True)"]

Lit = Tuple[str, bool]  # (canonical key of the atom, truth value that makes the guard raise)


def run(ctx) -> None:
    ctx.guard("C20.guard-table", guard_table)
    ctx.guard("C20.parallel", parallel)
    ctx.guard("C20.history-init", history_init)
    from .common import memo_rule

    # a cached validation helper: equal-but-differently-typed sizes (2.0 after 2) skip the refusal; cached builders share state
    ctx.guard("C20.guard-table", memo_rule, "C20.guard-table/no-cache", ("liquidhandling/labware.py", "liquidhandling/composition.py"))
    from . import c04, c05, c08

    ctx.reuse("C20.parallel", c08.grid_construction)
    ctx.reuse("C20.parallel", c08.id_width)
    # the keys of the component names (built by the trough helper) are the labware's own well IDs: one ID template everywhere
    ctx.reuse("C20.parallel", c08.id_templates)
    # "is a trough" is the same fact as "has virtual rows" for every constructed labware (also for one virtual row)
    ctx.reuse("C20.parallel", c08.trough_predicate)
    ctx.reuse("C20.parallel", c04.trough_alias)
    ctx.reuse("C20.composition-init", c05.default_name)
    ctx.reuse("C20.composition-init", c05.trough_names)
    ctx.guard("C20.naming-guards", naming_guards)
    ctx.guard("C20.naming-guards", composition_always)
    ctx.guard("C20.trough-args", trough_args)
    from .common import truthiness_rule
    from . import objmodel

    ctx.guard("C20.guard-table", objmodel.labware_model, "C20.guard-table")

    ctx.guard("C20.trough-args", truthiness_rule, "C20.trough-args", ("Trough.__init__", "Labware.__init__"), ("initial_volumes",),
              "0, an empty list and a one-element zero array are all treated like 'not given' (a per-column list of the wrong length is accepted and broadcast), and an array with several elements raises 'truth value is ambiguous'")


# ------------------------------------------------------------------------------- DNF of raising conditions
from ..guards import Atom, dnf, raising_terms  # noqa: E402,F401


def P(name: str) -> Poly:
    return Poly.symbol(ast.Name(id=name, ctx=ast.Load()))


def _is_not_none(a: Atom, var: str) -> bool:
    return a.kind == "none" and a.var == var and not a.is_none


def _truthy(a: Atom, var: str) -> bool:
    return (a.kind == "truthy" and a.var == var and a.pol) or _is_not_none(a, var)


def guard_table(ctx) -> None:
    rule = "C20.guard-table"
    f = ctx.prog.require_func("Labware.__init__", rule)
    fv = ctx.fv(f)
    selfn = f.params[0]
    stores = [n for n in fv.cfg.nodes if n.kind == "stmt" and isinstance(n.ast, (ast.Assign, ast.AnnAssign)) and any(
        isinstance(t, ast.Attribute) and is_name(t.value, selfn) for t in (n.ast.targets if isinstance(n.ast, ast.Assign) else [n.ast.target]))]
    if not stores:
        raise AnalysisInconclusive(rule, f.qualname, "no state store found")
    first = min(stores, key=lambda n: n.ast.lineno)
    first = next(n for n in stores if all(fv.cfg.dominates(n.id, m.id) for m in stores)) if any(all(fv.cfg.dominates(n.id, m.id) for m in stores) for n in stores) else first
    terms = raising_terms(fv, first.id)
    w = f.where(first.ast)
    iv_key = None
    # the validated array: what _volumes is built from
    vol_store = [n for n in stores if any(isinstance(t, ast.Attribute) and t.attr == "_volumes" for t in (n.ast.targets if isinstance(n.ast, ast.Assign) else [n.ast.target]))]
    iv_term = strip_norm(fv.res.resolve(vol_store[0].ast.value, vol_store[0].id)) if vol_store else None

    def is_iv(e: ast.AST) -> bool:
        return iv_term is not None and (same_seq(e, iv_term) or key(strip_norm(e)) == key(iv_term))

    def only(term, *preds, allow=()):
        """every atom of the term satisfies one of preds (each pred used by >= 1 atom) or one of allow."""
        used = [False] * len(preds)
        for a in term:
            hit = False
            for i, pr in enumerate(preds):
                if pr(a):
                    used[i] = True
                    hit = True
            if not hit and not any(al(a) for al in allow):
                return False
        return all(used)

    def cmp_is(a: Atom, *cands: Cmp) -> bool:
        return a.kind == "cmp" and a.cmp is not None and any(a.cmp == c for c in cands)

    def agg_inner(a: Atom, elem_cmp_when_raise_any: Cmp, elem_cmp_when_all: Cmp) -> Optional[str]:
        """'strict' (NaN-rejecting), 'weak' (NaN-transparent) or None."""
        if a.kind != "agg" or a.inner is None:
            return None
        inner = a.inner_expr
        x = Poly.symbol(ast.Name(id="§x", ctx=ast.Load()))
        left_iv, right_iv = is_iv(inner.left), is_iv(inner.comparators[0])
        if not (left_iv or right_iv):
            return None
        sc = ast.Compare(left=ast.Name(id="§x", ctx=ast.Load()) if left_iv else inner.left, ops=inner.ops, comparators=[ast.Name(id="§x", ctx=ast.Load()) if right_iv else inner.comparators[0]])
        c = to_cmp(sc, True)
        if a.agg == "any" and a.pol and c == elem_cmp_when_raise_any:
            return "weak"
        if a.agg == "all" and not a.pol and c == elem_cmp_when_all:
            return "strict"
        return None

    X = Poly.symbol(ast.Name(id="§x", ctx=ast.Load()))
    reqs: List[Tuple[str, str, Optional[bool], str]] = []  # (id, description, verdict, detail)

    def size_reqs(var: str, allow_none_guard: bool):
        allow = (lambda a: _is_not_none(a, var),) if allow_none_guard else ()
        nonint = any(only(t, lambda a: a.kind == "isinstance" and a.var == var and not a.pol and a.types in (["int"], ["int", "numpy.integer"], ["int", "np.integer"], ["numbers.Integral"]), allow=allow) and c == "ValueError" for t, n, c in terms)
        small = any(only(t, lambda a: cmp_is(a, Cmp(Poly.const(1) - P(var), ">"), Cmp(-P(var), ">=")), allow=allow) and c == "ValueError" for t, n, c in terms)
        return nonint, small

    for var in ("rows", "columns"):
        nonint, small = size_reqs(var, False)
        reqs.append((f"{var}-non-integer", f"non-integer {var} raises ValueError", nonint, f"no guard raises ValueError for every non-int `{var}`"))
        reqs.append((f"{var}-non-positive", f"{var} < 1 raises ValueError", small, f"no guard raises ValueError for `{var}` < 1"))
    nonint, small = size_reqs("virtual_rows", True)
    reqs.append(("virtual_rows-non-integer", "non-integer virtual_rows raises ValueError", nonint, "`virtual_rows` is not type-checked like rows/columns (a float reaches the alphabet slice and fails with TypeError)"))
    reqs.append(("virtual_rows-non-positive", "virtual_rows < 1 raises ValueError", small, "no guard raises ValueError for `virtual_rows` < 1"))
    # more rows than letters
    r26 = any(only(t, lambda a: cmp_is(a, Cmp(P("rows") - Poly.const(26), ">"), Cmp(P("rows") - Poly.const(27), ">="))) and c == "ValueError" for t, n, c in terms)
    v26 = any(only(t, lambda a: cmp_is(a, Cmp(P("virtual_rows") - Poly.const(26), ">"), Cmp(P("virtual_rows") - Poly.const(27), ">=")), allow=(lambda a: _is_not_none(a, "virtual_rows"),)) and c == "ValueError" for t, n, c in terms)
    # (a guard that also turns away exactly 26 rows refuses a labware that the 26 row letters can represent)
    r26_strict = any(only(t, lambda a: cmp_is(a, Cmp(P("rows") - Poly.const(26), ">="), Cmp(P("rows") - Poly.const(25), ">"))) and c == "ValueError" for t, n, c in terms)
    v26_strict = any(only(t, lambda a: cmp_is(a, Cmp(P("virtual_rows") - Poly.const(26), ">="), Cmp(P("virtual_rows") - Poly.const(25), ">")), allow=(lambda a: _is_not_none(a, "virtual_rows"),)) and c == "ValueError" for t, n, c in terms)
    def fires(term, env) -> bool:
        """every atom of the raising term can be evaluated for the given rows / virtual_rows and holds"""
        for a in term:
            names = {x.id for x in ast.walk(a.expr) if isinstance(x, ast.Name)}
            if not names <= {"rows", "virtual_rows", "columns", "isinstance", "int"} or any(isinstance(x, (ast.Call, ast.Attribute, ast.Subscript)) and not (
                    isinstance(x, ast.Call) and call_fname(x) == "isinstance") for x in ast.walk(a.expr)):
                return False
            try:
                val = eval(compile(ast.fix_missing_locations(ast.Expression(body=a.expr)), "<guard>", "eval"), {"__builtins__": {"isinstance": isinstance, "int": int}}, dict(env))
            except Exception:
                return False
            if bool(val) != a.pol:
                return False
        return True

    def covered(samples) -> bool:
        return all(any(c == "ValueError" and fires(t, env) for t, n, c in terms) for env in samples)

    if not r26 and not r26_strict:
        # the same rejection spread over the plate / trough branches of a nested test: decided on sample geometries
        r26 = covered([dict(rows=r_, virtual_rows=v_, columns=1) for r_ in (27, 1000) for v_ in (None, 1, 5, 26, 27)]) and not any(
            fires(t, dict(rows=26, virtual_rows=None, columns=1)) for t, n, c in terms)
    if not v26 and not v26_strict:
        v26 = covered([dict(rows=1, virtual_rows=v_, columns=1) for v_ in (27, 1000)]) and not any(fires(t, dict(rows=1, virtual_rows=26, columns=1)) for t, n, c in terms)
    reqs.append(("rows-exceed-letters", "more rows than row letters raises ValueError", r26,
                 "the guard on the number of rows is `rows >= 26`: a labware with exactly 26 rows (A..Z) is refused" if r26_strict else
                 "no guard rejects every labware with rows > 26: the alphabet slice silently truncates the IDs (wells 26xC vs volumes RxC)"))
    reqs.append(("virtual-rows-exceed-letters", "more virtual rows than row letters raises ValueError", v26,
                 "the guard is `virtual_rows >= 26`: a trough with exactly 26 virtual rows (A..Z) is refused" if v26_strict else "no guard rejects virtual_rows > 26: the alphabet slice silently truncates"))
    # virtual rows only with rows == 1
    vr1 = any(only(t, lambda a: _truthy(a, "virtual_rows"), lambda a: cmp_is(a, Cmp(P("rows") - Poly.const(1), "!="))) and c == "ValueError" for t, n, c in terms)
    reqs.append(("virtual-rows-need-one-row", "virtual rows on multi-row labware raise ValueError", vr1, "virtual_rows together with rows != 1 is not rejected with ValueError"))
    # min / max volume, NaN-rejecting
    def limit_req(name: str, expected: Cmp, what: str):
        strict = weak = False
        for t, n, c in terms:
            if c != "ValueError":
                continue
            if only(t, lambda a: cmp_is(a, expected)):
                a = [x for x in t if cmp_is(x, expected)][0]
                if a.raises_on_nan:
                    strict = True
                else:
                    weak = True
        if strict:
            return True, ""
        if weak:
            return False, f"the `{name}` guard is NaN-transparent (written as a comparison that is False for NaN): {what}=nan is accepted and defeats every later limit comparison"
        return False, f"no guard establishes the required range of `{name}`"
    ok, why = limit_req("min_volume", Cmp(-P("min_volume"), ">"), "min_volume")
    reqs.append(("min_volume-range", "min_volume < 0 (or NaN) raises ValueError", ok, why))
    ok, why = limit_req("max_volume", Cmp(P("min_volume") - P("max_volume"), ">="), "max_volume")
    reqs.append(("max_volume-range", "max_volume <= min_volume (or NaN) raises ValueError", ok, why))
    # initial volumes
    neg = {agg_inner(a, Cmp(-X, ">"), Cmp(X, ">=")) for t, n, c in terms if c == "ValueError" and len(t) == 1 for a in t} - {None}
    big = {agg_inner(a, Cmp(X - P("max_volume"), ">"), Cmp(P("max_volume") - X, ">=")) for t, n, c in terms if c == "ValueError" and len(t) == 1 for a in t} - {None}
    fin = False
    for t, n, c in terms:
        if c == "ValueError" and len(t) == 1 and t[0].kind == "agg" and getattr(t[0], "inner_fn", None):
            a = t[0]
            arg = a.inner_expr.args[0] if a.inner_expr.args else None
            if arg is not None and is_iv(arg):
                if (a.inner_fn == "isfinite" and a.agg == "all" and not a.pol) or (a.inner_fn == "isnan" and a.agg == "any" and a.pol):
                    fin = True
    reqs.append(("initial-negative", "negative initial volumes raise ValueError", bool(neg), "no guard rejects negative initial volumes"))
    reqs.append(("initial-above-max", "initial volumes above max_volume raise ValueError", bool(big), "no guard rejects initial volumes above max_volume"))
    nan_ok = fin or ("strict" in neg) or ("strict" in big)
    reqs.append(("initial-nan", "NaN initial volumes raise ValueError", nan_ok, "the initial-volume guards are NaN-transparent (any(x < 0) / any(x > max) are False for NaN) and no isfinite/isnan check exists: NaN volumes are accepted"))
    for rid, desc, ok, why in reqs:
        ctx.rep.check(bool(ok), rule, f"{f.qualname}/{rid}", desc + " before any state is stored", why, where=w)
    ctx.rep.floor(rule, "raising guard terms before the first state store", len(terms), 12)
    # shape of the initial volumes: wrong-size lists must fail (reshape raises ValueError)
    resh = [cs for cs in fv.calls() if call_fname(cs.call) == "reshape"]
    ok_r = False
    for cs in resh:
        a = cs.call.args[0] if cs.call.args else None
        if len(cs.call.args) == 2:
            a = ast.Tuple(elts=list(cs.call.args), ctx=ast.Load())  # reshape(rows, columns)
        a = fv.res.resolve(a, cs.node) if a is not None else None
        if isinstance(a, ast.Tuple) and [getattr(e, "id", None) for e in a.elts] == ["rows", "columns"] and not [k for k in cs.call.keywords if k.arg == "order"]:
            ok_r = fv.cfg.dominates(cs.node, first.id) or True
    ctx.rep.check(ok_r, rule, f"{f.qualname}/reshape", "flat lists are reshaped row-major to (rows, columns) (wrong sizes raise ValueError)",
                  "initial volumes are not reshaped to (rows, columns) in the default row-major order: flat lists are laid out differently than given (or wrong sizes are accepted)", where=f.where())


def parallel(ctx) -> None:
    rule = "C20.parallel"
    f = ctx.prog.require_func("Labware.__init__", rule)
    fv = ctx.fv(f)
    selfn = f.params[0]
    for n in fv.cfg.nodes:
        if n.kind == "stmt" and isinstance(n.ast, (ast.Assign, ast.AnnAssign)):
            t = n.ast.targets[0] if isinstance(n.ast, ast.Assign) else n.ast.target
            if attr_of_name(t, selfn, "_volumes"):
                v = fv.res.resolve(n.ast.value, n.id)
                # scalar -> full((rows, columns)); array -> reshape((rows, columns)); then copy + float
                txt = show(v)
                variants = [v]
                if is_sym(v, "norm") or is_sym(v, "phi"):
                    variants = list(v.args[1:]) if is_sym(v, "norm") else list(v.args)
                shapes = []
                for sub in ast.walk(v):
                    if isinstance(sub, ast.Call) and call_fname(sub) in ("full", "reshape", "zeros", "ones", "broadcast_to", "tile", "resize"):
                        shp = sub.args[0] if call_fname(sub) not in ("broadcast_to", "resize", "tile") else (sub.args[1] if len(sub.args) > 1 else None)
                        order = [k for k in sub.keywords if k.arg == "order" and not (isinstance(k.value, ast.Constant) and k.value.value == "C")]
                        shapes.append((call_fname(sub), show(shp) if shp is not None else None, bool(order)))
                ok = bool(shapes) and all(s[1] is not None and s[1].replace(" ", "") == "(rows,columns)" and not s[2] and s[0] in ("full", "reshape") for s in shapes)
                ctx.rep.check(ok, rule, f"{f.qualname}/_volumes-shape", "volumes have the real grid shape (rows, columns), row-major, scalars broadcast with full()",
                              f"the volume array is built by {shapes}: not (rows, columns) in row-major order for every kind of initial_volumes", where=f.where(n.ast))
                isfloat = any(isinstance(sub, ast.Call) and call_fname(sub) == "astype" and sub.args and show(sub.args[0]) in ("float", "np.float64", "numpy.float64") for sub in ast.walk(v))
                ctx.rep.check(isfloat, rule, f"{f.qualname}/_volumes-float", "volumes are stored as floats", "the volume array is not converted to float (integer arrays would truncate fractional volumes)", where=f.where(n.ast))
    # real wells handed to the composition initialisation
    calls = [cs for cs in fv.calls() if cs.callee.kind == "func" and cs.callee.func.name == "get_initial_composition"]
    if len(calls) != 1:
        ctx.rep.inconclusive(rule, f"{f.qualname}/composition", "get_initial_composition call not found")
        return
    b = fv.bind_args(calls[0]) or {}
    rw = b.get("real_wells")
    if isinstance(rw, ast.Name) and rw.id not in f.params:
        rw = fv.def_expr(rw, calls[0].node)[0]  # the selection held in a (single-definition) local
    ok = False
    if isinstance(rw, ast.IfExp):
        core = rw.test
        when_trough, when_plate = rw.body, rw.orelse
        if isinstance(core, ast.UnaryOp) and isinstance(core.op, ast.Not):
            core, when_trough, when_plate = core.operand, rw.orelse, rw.body
        is_vr = is_name(core, "virtual_rows") or (isinstance(core, ast.Compare) and is_name(core.left, "virtual_rows") and isinstance(core.ops[0], ast.IsNot))
        if isinstance(core, ast.Compare) and is_name(core.left, "virtual_rows") and isinstance(core.ops[0], ast.Is):
            is_vr, when_trough, when_plate = True, when_plate, when_trough
        row0 = isinstance(when_trough, ast.Subscript) and attr_of_name(when_trough.value, selfn, "wells") and show(when_trough.slice).replace(" ", "") in ("([0],slice(None,None,None))", "[0],:", "([0],:)", "slice(None,1,None)", ":1")
        row0 = row0 or (isinstance(when_trough, ast.Subscript) and "0" in show(when_trough.slice) and attr_of_name(when_trough.value, selfn, "wells"))
        ok = is_vr and row0 and attr_of_name(when_plate, selfn, "wells")
    ctx.rep.check(ok, rule, f"{f.qualname}/real-wells", "composition is initialised for the real wells (row 0 of the ID array for troughs)", f"real wells handed to the composition initialisation are `{show(rw)[:80] if rw is not None else None}`", where=f.where(calls[0].call))
    iv = b.get("initial_volumes")
    vstores = [n for n in fv.cfg.nodes if n.kind == "stmt" and isinstance(n.ast, (ast.Assign, ast.AnnAssign)) and attr_of_name(n.ast.targets[0] if isinstance(n.ast, ast.Assign) else n.ast.target, selfn, "_volumes")]
    same_arr = bool(vstores) and iv is not None and key(strip_norm(fv.res.resolve(iv, calls[0].node))) == key(strip_norm(fv.res.resolve(vstores[0].ast.value, vstores[0].id)))
    ctx.rep.check(same_arr, rule, f"{f.qualname}/composition-volumes", "composition initialised from the validated initial volumes", "composition is not initialised from the validated initial volumes", where=f.where(calls[0].call))


def history_init(ctx) -> None:
    rule = "C20.history-init"
    f = ctx.prog.require_func("Labware.__init__", rule)
    fv = ctx.fv(f)
    selfn = f.params[0]
    got = {}
    for n in fv.cfg.nodes:
        if n.kind == "stmt" and isinstance(n.ast, (ast.Assign, ast.AnnAssign)) and n.ast.value is not None:
            t = n.ast.targets[0] if isinstance(n.ast, ast.Assign) else n.ast.target
            if attr_of_name(t, selfn, "_history"):
                v = n.ast.value
                got["_history"] = isinstance(v, ast.List) and len(v.elts) == 1 and (attr_of_name(v.elts[0], selfn, "volumes") or (isinstance(v.elts[0], ast.Call) and call_fname(v.elts[0]) == "copy"))
                # after the volumes exist
                vs = [m for m in fv.cfg.nodes if m.kind == "stmt" and isinstance(m.ast, (ast.Assign, ast.AnnAssign)) and attr_of_name(m.ast.targets[0] if isinstance(m.ast, ast.Assign) else m.ast.target, selfn, "_volumes")]
                got["order"] = bool(vs) and fv.cfg.dominates(vs[0].id, n.id)
            if attr_of_name(t, selfn, "_labels"):
                v = n.ast.value
                got["_labels"] = isinstance(v, ast.List) and len(v.elts) == 1 and isinstance(v.elts[0], ast.Constant) and v.elts[0].value == "initial"
    ctx.rep.check(got.get("_history") is True and got.get("order") is True, rule, f"{f.qualname}/_history", "history starts with exactly one snapshot of the initial volumes",
                  "the history is not initialised as [<snapshot of the initial volumes>] after the volumes were stored", where=f.where())
    ctx.rep.check(got.get("_labels") is True, rule, f"{f.qualname}/_labels", "labels start with exactly ['initial']", "the label list is not initialised as ['initial']", where=f.where())


def composition_always(ctx) -> None:
    """The component names are validated for every labware: Labware.__init__ calls get_initial_composition on every path that
    returns normally (a constructor that skips it - e.g. for an all-empty labware - accepts names for empty / unknown wells)."""
    rule = "C20.naming-guards"
    f = ctx.prog.require_func("Labware.__init__", rule)
    fv = ctx.fv(f)
    calls = [cs for cs in fv.calls() if cs.callee.kind == "func" and cs.callee.func.name == "get_initial_composition"]
    c = f"{f.qualname}/get_initial_composition"
    if not calls:
        ctx.rep.inconclusive(rule, c, "call not found", where=f.where())
        return
    ctrl = []
    for cs in calls:
        ctrl.append([(fv.cfg.nodes[d].ast, pol) for d, pol in fv.controlling(cs.node, skip_raising=True)])
    # one unconditional call, or calls on both outcomes of every condition (approximated: some call is unconditional)
    if any(not cc for cc in ctrl):
        ctx.rep.holds(rule, c, "called on every path of the constructor", where=f.where(calls[0].call))
    else:
        t, pol = ctrl[0][0]
        ctx.rep.refuted(rule, c, f"get_initial_composition - and with it the validation of the component names - only runs when `{show(t)[:60]}` is {pol}: "
                        "otherwise names for empty or unknown wells are accepted without a ValueError", where=f.where(calls[0].call))


def naming_guards(ctx) -> None:
    rule = "C20.naming-guards"
    f = ctx.prog.require_func("get_initial_composition", rule)
    fv = ctx.fv(f)
    # unknown wells: set(component_names.keys()) - set(real wells) non-empty => ValueError, before the loop
    loops = [n for n in fv.cfg.nodes if n.kind == "for"]
    ok_unknown = False
    for n, test, pol, r in fv.raising_guards():
        rt = fv.res.resolve(test, n.id)
        if pol and raise_class(fv, r)[0] == "ValueError" and isinstance(rt, ast.BinOp) and isinstance(rt.op, ast.Sub) and "component_names" in show(rt.left) and "real_wells" in show(rt.right):
            ok_unknown = all(fv.cfg.dominates(n.id, lp.id) for lp in loops)
    ctx.rep.check(ok_unknown, rule, f"{f.qualname}/unknown-wells", "names for wells that do not exist raise ValueError", "component names for unknown wells are not rejected with ValueError before the composition is built", where=f.where())
    # names for empty wells
    ok_empty = False
    for rn_ in fv.cfg.nodes:
        # every raise statement (not only `if bad: raise`): the conditions that hold where it is reached decide
        if rn_.kind != "stmt" or not isinstance(rn_.ast, ast.Raise) or raise_class(fv, rn_.ast)[0] != "ValueError":
            continue
        atoms = fv.atoms_at(rn_.id)
        empty = any(isinstance(x, ast.Compare) and len(x.ops) == 1 and isinstance(x.ops[0], ast.Eq) and p and isinstance(x.comparators[0], ast.Constant) and x.comparators[0].value == 0
                    and "initial_volumes" in show(x.left) for x, p, _b in atoms)
        named = any(isinstance(x, ast.Compare) and len(x.ops) == 1 and isinstance(x.ops[0], ast.Is) and not p and isinstance(x.comparators[0], ast.Constant) and x.comparators[0].value is None
                    and "component_names" in show(x.left) for x, p, _b in atoms)
        ok_empty = ok_empty or (empty and named)
    ctx.rep.check(ok_empty, rule, f"{f.qualname}/names-for-empty", "a name for an empty well raises ValueError", "a component name given for an empty well is not rejected with ValueError", where=f.where())
    # trough: per-column lengths
    g = ctx.prog.require_func("get_trough_component_names", rule)
    gv = ctx.fv(g)
    from ..guards import raising_terms

    # the guards may live in a new helper: raising terms are expressed over this function's arguments
    ret_names0 = {getattr(gv.alias_root(n.ast.value, n.id), "id", None) for n in gv.return_nodes()}
    fill_loops = [n.id for n in gv.cfg.nodes if n.kind == "for" and any(
        m.kind == "stmt" and isinstance(m.ast, ast.Assign) and isinstance(m.ast.targets[0], ast.Subscript) and isinstance(m.ast.targets[0].value, ast.Name) and m.ast.targets[0].value.id in ret_names0
        for m in (gv.cfg.nodes[i] for i in gv.cfg.loop_body[n.id]))]
    first_loop = min(fill_loops) if fill_loops else min((n.id for n in gv.cfg.nodes if n.kind == "for"), default=None)
    terms = raising_terms(gv, first_loop) if first_loop is not None else raising_terms(gv, None)
    seen = set()
    ok_e = False
    for term, n, cls in terms:
        if cls != "ValueError" or len(term) != 1:
            continue
        a_ = term[0]
        rt, pol = a_.expr, a_.pol
        if isinstance(rt, ast.Compare) and len(rt.ops) == 1 and ((isinstance(rt.ops[0], ast.NotEq) and pol) or (isinstance(rt.ops[0], ast.Eq) and not pol)) and call_fname(rt.left) == "shape" and rt.left.args:
            rhs = rt.comparators[0]
            if isinstance(rhs, ast.Tuple) and len(rhs.elts) == 1 and is_name(rhs.elts[0], "columns"):
                seen.add(show(rt.left.args[0]))
        if isinstance(rt, ast.Call) and call_fname(rt) == "any" and pol:
            ok_e = ok_e or ("is not None" in show(rt) and "== 0" in show(rt))
    ctx.rep.check({"column_names", "initial_volumes"} <= seen, rule, f"{g.qualname}/lengths", "per-column lists of the wrong length raise ValueError",
                  f"only {sorted(seen)} are checked against the number of columns: a per-column list of the wrong length is accepted", where=g.where())
    ctx.rep.check(ok_e, rule, f"{g.qualname}/names-for-empty", "a name for an empty column raises ValueError", "a column name for an empty column is not rejected", where=g.where())


def trough_args(ctx) -> None:
    rule = "C20.trough-args"
    f = ctx.prog.require_func("Trough.__init__", rule)
    fv = ctx.fv(f)
    sup = [cs for cs in fv.calls() if cs.callee.kind == "func" and cs.callee.func.short == "Labware.__init__"]
    if len(sup) != 1:
        ctx.rep.inconclusive(rule, f.qualname, "super().__init__ call not found")
        return
    b = fv.bind_args(sup[0]) or {}
    w = f.where(sup[0].call)
    rows = b.get("rows")
    ctx.rep.check(isinstance(rows, ast.Constant) and rows.value == 1, rule, f"{f.qualname}/rows", "troughs have one real row", f"Trough passes rows=`{show(rows) if rows is not None else None}`", where=w)
    for p in ("name", "columns", "min_volume", "max_volume", "virtual_rows"):
        v = b.get(p)
        ctx.rep.check(v is not None and is_name(fv.res.resolve(v, sup[0].node), p), rule, f"{f.qualname}/{p}", f"{p} is forwarded unchanged", f"`{p}` is forwarded as `{show(v) if v is not None else 'omitted'}`", where=w)
    iv = b.get("initial_volumes")
    ivt = fv.res.resolve(iv, sup[0].node) if iv is not None else None
    ok_iv = ivt is not None and is_name(strip_norm(ivt.args[0] if is_sym(ivt, "phi") else ivt), "initial_volumes") or (ivt is not None and is_sym(ivt, "phi"))
    ctx.rep.check(bool(ok_iv), rule, f"{f.qualname}/initial_volumes", "initial volumes are forwarded", "initial volumes are not forwarded", where=w)
    # scalar broadcast only for true scalars
    bc = [n for n in fv.cfg.nodes if n.kind == "stmt" and isinstance(n.ast, ast.Assign) and is_name(n.ast.targets[0], "initial_volumes")]
    ok_bc = False
    detail = "no scalar broadcast of initial_volumes found"
    for n in bc:
        v = n.ast.value
        is_rep = isinstance(v, ast.BinOp) and isinstance(v.op, ast.Mult) and any(isinstance(s, ast.List) and len(s.elts) == 1 and is_name(s.elts[0], "initial_volumes") for s in (v.left, v.right)) and any(is_name(s, "columns") for s in (v.left, v.right))
        ctrl = fv.controlling(n.id, skip_raising=True)
        if is_rep and len(ctrl) == 1:
            t = fv.cfg.nodes[ctrl[0][0]].ast
            if isinstance(t, ast.Name):
                t = fv.def_expr(t, ctrl[0][0])[0]  # the test held in a (single-definition) local
            if isinstance(t, ast.Call) and call_fname(t) == "isinstance" and is_name(t.args[0], "initial_volumes") and ctrl[0][1]:
                types = {show(x) for x in (t.args[1].elts if isinstance(t.args[1], ast.Tuple) else [t.args[1]])}
                ok_bc = types <= {"int", "float", "numbers.Number", "numbers.Real", "np.integer", "np.floating", "numpy.integer", "numpy.floating", "np.number", "numpy.number"}
                detail = f"broadcast under isinstance(initial_volumes, {sorted(types)})"
            else:
                detail = f"initial_volumes is broadcast to all columns whenever `{stmt_key(t)[:60]}`: one-element per-column lists (wrong length) are silently accepted"
        elif is_rep:
            detail = "scalar broadcast is not guarded by a scalar type test"
    if not ok_bc and iv is not None and detail.startswith("no scalar broadcast"):
        # the same dispatch through a temporary (an expanded helper): the values that reach the base constructor, with their conditions
        SCALAR = {"int", "float", "numbers.Number", "numbers.Real", "np.integer", "np.floating", "numpy.integer", "numpy.floating", "np.number", "numpy.number"}
        reps = plain = 0
        good = True
        for conds, val in fv.alternatives(iv, sup[0].node):
            v_ = strip_norm(val)
            is_rep = isinstance(v_, ast.BinOp) and isinstance(v_.op, ast.Mult) and any(isinstance(s_, ast.List) and len(s_.elts) == 1 and is_name(strip_norm(s_.elts[0]), "initial_volumes") for s_ in (v_.left, v_.right)) \
                and any(is_name(s_, "columns") for s_ in (v_.left, v_.right))
            inst = [(r_, p_) for r_, p_ in conds if isinstance(r_, ast.Call) and call_fname(r_) == "isinstance" and len(r_.args) == 2 and is_name(strip_norm(r_.args[0]), "initial_volumes")]
            if is_rep:
                reps += 1
                good = good and len(inst) == 1 and inst[0][1] and {show(x) for x in (inst[0][0].args[1].elts if isinstance(inst[0][0].args[1], ast.Tuple) else [inst[0][0].args[1]])} <= SCALAR
            elif is_name(v_, "initial_volumes"):
                plain += 1
                good = good and len(inst) == 1 and not inst[0][1]
            else:
                good = False
        if reps == 1 and plain == 1 and good:
            ok_bc = True
    ctx.rep.check(ok_bc, rule, f"{f.qualname}/scalar-broadcast", "only true scalars are broadcast to all columns", detail, where=f.where())
    names = [cs for cs in fv.calls() if cs.callee.kind == "func" and cs.callee.func.name == "get_trough_component_names"]
    ok_n = False
    if len(names) == 1:
        nb = fv.bind_args(names[0]) or {}
        ok_n = all(k in nb for k in ("name", "columns", "column_names", "initial_volumes")) and is_name(nb["columns"], "columns") and is_name(nb["name"], "name") and fv.cfg.dominates(names[0].node, sup[0].node)
        cn = b.get("component_names")
        ok_n = ok_n and cn is not None and key(fv.res.resolve(cn, sup[0].node)) == key(fv.res.resolve(names[0].call, names[0].node))
    if len(names) == 1 and "column_names" in (fv.bind_args(names[0]) or {}):
        # the caller's per-column names reach the length check as they were given: only None (no names) and a single str are
        # rewritten - a list that is padded / truncated to the number of columns can no longer be rejected for its length
        cn_arg = (fv.bind_args(names[0]) or {})["column_names"]
        for conds, val in fv.alternatives(cn_arg, names[0].node):
            cc = f"{f.qualname}/column-names[{show(val)[:30]}]"
            ww = f.where(names[0].call)
            given = is_name(strip_norm(val), "column_names")
            none_fill = isinstance(val, ast.BinOp) and isinstance(val.op, ast.Mult) and any(isinstance(x, ast.List) and len(x.elts) == 1 and isinstance(x.elts[0], ast.Constant) and x.elts[0].value is None for x in (val.left, val.right)) \
                and any(isinstance(c_, ast.Compare) and isinstance(c_.ops[0], ast.Is) and p_ and is_name(c_.left, "column_names") for c_, p_ in conds)
            single = isinstance(val, ast.List) and len(val.elts) == 1
            if given or none_fill or single:
                ctx.rep.holds(rule, cc, "the given names (or the None / single-name defaults) reach the length check", where=ww)
            elif is_sym(val, "mut"):
                lname = val.args[0].value
                stores = [n for n in fv.cfg.nodes if n.kind == "stmt" and isinstance(n.ast, ast.Assign) and isinstance(n.ast.targets[0], ast.Subscript) and is_name(n.ast.targets[0].value, lname)
                          and any(isinstance(x, ast.Name) and x.id == "column_names" for x in ast.walk(n.ast.value))]
                if stores:
                    ctx.rep.refuted(rule, cc, f"the given column names are copied into a list of `columns` entries (`{stmt_key(stores[0].ast)[:60]}`) before their number is checked: "
                                    "a list with too few names is silently padded instead of raising ValueError", where=f.where(stores[0].ast))
                else:
                    ctx.rep.inconclusive(rule, cc, f"cannot tell what `{lname}` holds when it reaches get_trough_component_names", where=ww)
            else:
                ctx.rep.inconclusive(rule, cc, f"column names reach the length check as `{show(val)[:60]}`", where=ww)
    ctx.rep.check(ok_n, rule, f"{f.qualname}/component-names", "component names come from get_trough_component_names(name, columns, column_names, initial_volumes)", "component names are not derived by get_trough_component_names from the same columns/volumes", where=f.where())
