"""C19 - get_trough_wells cycles through the given wells and returns exactly n."""
from __future__ import annotations

import ast

from ..canon import Cmp, Poly, to_cmp, to_poly
from ..defuse import flatten_order, is_sym, key, norm_chains, show, strip_norm
from ..engine import own_walk
from ..model import AnalysisInconclusive
from .common import call_fname, is_name, raise_class, seq_transformers, stmt_key

EXPLANATION = (
    "C19: the return of get_trough_wells is dominated by the guards isinstance(n, int) else TypeError, n < 0 => "
    "ValueError, empty well list => ValueError; the wells are flattened column-major and otherwise untouched (no "
    "de-duplication, slicing, capping); the result is the repeat-and-truncate idiom (L * k)[:n] with k one of the forms "
    "that guarantee k*len(L) >= n for every n >= 0 (n // len + 1, ceil(n/len), -(-n // len))."
)
ASSUMPTIONS = ["list repetition keeps the order of L in every block, so element i is L[i mod len(L)]"]


def run(ctx) -> None:
    from . import objmodel

    ctx.guard("C19.cycle", objmodel.abc_registration, "C19.cycle", "a type-dispatched reading of the wells (flat sequence vs array) takes the other branch: 2-D arrays are no longer read column-major")
    ctx.guard("C19", check)
    from .common import memo_rule

    ctx.guard("C19.fresh-result", memo_rule, "C19.fresh-result", ("robotools/utils.py",))
    ctx.guard("C19.cycle", _buffers)
    # the returned IDs are the given ones, character for character (no fixed-width string dtype anywhere on the way)
    from . import c08

    ctx.reuse("C19.cycle", c08.id_width)
    from .common import arg_mutation_rule

    ctx.guard("C19.fresh-result", arg_mutation_rule, "C19.fresh-result", ("get_trough_wells",),
              "the caller's well list is overwritten by the result (a later call cycles over fewer wells, n = 0 empties it)")


def _buffers(ctx) -> None:
    from .common import buffer_dtype_rule

    if buffer_dtype_rule(ctx, "C19.cycle", ("get_trough_wells",), ("trough_wells",)) == 0:
        ctx.rep.holds("C19.cycle", "get_trough_wells/no-typed-buffer", "the wells are not copied into a fixed-width string buffer")


def _modulo_cycle(fv, rn):
    """result = []; for i in range(n): result.append(L[i % M])   or   [L[i % M] for i in range(n)]
    ->  (resolved L, resolved M)  (None if the return is not that idiom)"""
    raw_ret, at_ret = fv.def_expr(rn.ast.value, rn.id)
    if isinstance(raw_ret, ast.ListComp) and len(raw_ret.generators) == 1 and not raw_ret.generators[0].ifs and isinstance(raw_ret.generators[0].target, ast.Name):
        g = raw_ret.generators[0]
        it = fv.res.resolve(g.iter, at_ret)
        elt = raw_ret.elt
        if isinstance(it, ast.Call) and call_fname(it) == "range" and len(it.args) == 1 and is_name(it.args[0], "n") \
                and isinstance(elt, ast.Subscript) and isinstance(elt.slice, ast.BinOp) and isinstance(elt.slice.op, ast.Mod) and is_name(elt.slice.left, g.target.id):
            return fv.res.resolve(elt.value, at_ret), fv.res.resolve(elt.slice.right, at_ret)
        return None
    root = fv.alias_root(rn.ast.value, rn.id)
    if not isinstance(root, ast.Name):
        return None
    inits = [n for n in fv.cfg.nodes if n.kind == "stmt" and isinstance(n.ast, (ast.Assign, ast.AnnAssign)) and is_name(n.ast.targets[0] if isinstance(n.ast, ast.Assign) else n.ast.target, root.id)]
    apps = [cs for cs in fv.calls() if isinstance(cs.call.func, ast.Attribute) and cs.call.func.attr in ("append", "extend", "insert", "pop", "remove", "clear") and is_name(cs.call.func.value, root.id)]
    if len(inits) != 1 or len(apps) != 1 or apps[0].call.func.attr != "append" or len(apps[0].call.args) != 1:
        return None
    iv = inits[0].ast.value
    if not ((isinstance(iv, ast.List) and not iv.elts) or (isinstance(iv, ast.Call) and call_fname(iv) == "list" and not iv.args)) or fv.cfg.enclosing_loops(inits[0].id):
        return None
    app = apps[0]
    loops = fv.cfg.enclosing_loops(app.node)
    if len(loops) != 1 or fv.cfg.nodes[loops[0]].kind != "for" or fv.cfg.loop_has_break.get(loops[0]):
        return None
    lp = fv.cfg.nodes[loops[0]]
    it = fv.res.resolve(lp.ast.iter, lp.id)
    if not (isinstance(it, ast.Call) and call_fname(it) == "range" and len(it.args) == 1 and is_name(it.args[0], "n") and isinstance(lp.ast.target, ast.Name)):
        return None
    if fv.controlling(app.node, within=fv.cfg.loop_body[lp.id]):
        return None
    raw = app.call.args[0]
    raw = fv.def_expr(raw, app.node)[0] if isinstance(raw, ast.Name) else raw
    if not (isinstance(raw, ast.Subscript) and isinstance(raw.slice, ast.BinOp) and isinstance(raw.slice.op, ast.Mod) and is_name(raw.slice.left, lp.ast.target.id)):
        return None
    return fv.res.resolve(raw.value, app.node), fv.res.resolve(raw.slice.right, app.node)


def check(ctx) -> None:
    f = ctx.prog.require_func("get_trough_wells", "C19.guards")
    fv = ctx.fv(f)
    rets = [n for n in fv.cfg.nodes if n.kind == "stmt" and isinstance(n.ast, ast.Return) and n.ast.value is not None]
    if len(rets) != 1:
        ctx.rep.check(None if not rets else False, "C19.cycle", f"{f.qualname}/return", "", f"expected one return, found {len(rets)} (shortcut paths bypass the cycle rule)", where=f.where())
        return
    rn = rets[0]
    w = f.where(rn.ast)
    N = Poly.symbol(ast.Name(id="n", ctx=ast.Load()))
    # ---- guards
    type_ok = neg_ok = empty_ok = False
    recognised = set()
    all_guards = [g_ for g_ in fv.raising_guards() if fv.cfg.dominates(g_[0].id, rn.id)]
    for n, test, pol, r in fv.raising_guards():
        if not fv.cfg.dominates(n.id, rn.id):
            continue
        rt = fv.res.resolve(test, n.id)
        core, p = rt, pol
        while isinstance(core, ast.UnaryOp) and isinstance(core.op, ast.Not):
            core, p = core.operand, not p
        cls = raise_class(fv, r)[0]
        if isinstance(core, ast.Call) and call_fname(core) == "isinstance" and is_name(core.args[0], "n") and not p:
            types = core.args[1]
            names = {getattr(e, "id", getattr(e, "attr", "?")) for e in (types.elts if isinstance(types, ast.Tuple) else [types])}
            type_ok = names <= {"int", "integer", "Integral"} and "int" in names | {"int"} and cls == "TypeError"
            recognised.add(n.id)
        cm = to_cmp(core, p)
        if cm is not None and cm == Cmp(-N, ">") and cls == "ValueError":
            neg_ok = True
            recognised.add(n.id)
        if cm is not None and cls == "ValueError":
            # len(L) == 0  /  not L
            for side in (core.left, core.comparators[0]) if isinstance(core, ast.Compare) else ():
                if call_fname(side) == "len" and side.args and is_name(strip_norm(side.args[0]), "trough_wells") and isinstance(core.ops[0], ast.Eq):
                    empty_ok = True
                    recognised.add(n.id)
        if isinstance(core, ast.Name) and not p and cls == "ValueError":
            if is_name(strip_norm(core), "trough_wells"):
                empty_ok = True
                recognised.add(n.id)
        # `if not wells` on the list of flattened wells: a list is falsy exactly when it is empty
        if isinstance(core, ast.Call) and not is_sym(core) and call_fname(core) in ("list", "tuple") and core.args and not p and cls == "ValueError" and is_name(strip_norm(core), "trough_wells"):
            empty_ok = True
            recognised.add(n.id)
    # nothing else is turned away: any n >= 0 and any non-empty collection of wells is a valid request
    for n, test, pol, r in all_guards:
        if n.id in recognised:
            continue
        rt = fv.res.resolve(test, n.id)
        about_wells = any(isinstance(x, ast.Name) and x.id == "trough_wells" for x in ast.walk(rt))
        about_n = any(isinstance(x, ast.Name) and x.id == "n" for x in ast.walk(rt))
        if about_wells or about_n:
            ctx.rep.refuted("C19.guards", f"{f.qualname}/extra-rejection[{show(rt)[:30]}]", f"requests are additionally rejected when `{show(rt)[:70]}` "
                            f"({raise_class(fv, r)[0]}): valid numbers of wells / valid well collections are turned away", where=f.where(n.ast))
        else:
            ctx.rep.inconclusive("C19.guards", f"{f.qualname}/extra-rejection[{show(rt)[:30]}]", f"unrecognised rejection `{show(rt)[:70]}`", where=f.where(n.ast))
    ctx.rep.check(type_ok, "C19.guards", f"{f.qualname}/type", "non-integer n raises TypeError", "a non-integer n is not rejected (isinstance(n, int) else TypeError) before the result is built", where=w)
    ctx.rep.check(neg_ok, "C19.guards", f"{f.qualname}/negative", "negative n raises ValueError", "a negative n is not rejected with ValueError (a negative slice bound silently returns a truncated list)", where=w)
    ctx.rep.check(empty_ok, "C19.guards", f"{f.qualname}/empty", "an empty well list raises ValueError", "an empty well collection is not rejected with ValueError", where=w)
    # ---- the cycle idiom
    val = fv.res.resolve(rn.ast.value, rn.id)
    ok_shape = isinstance(val, ast.Subscript) and isinstance(val.slice, ast.Slice) and val.slice.lower is None and val.slice.step is None and is_name(val.slice.upper, "n") \
        and isinstance(val.value, ast.BinOp) and isinstance(val.value.op, ast.Mult)
    if not ok_shape and isinstance(val, ast.BinOp) and isinstance(val.op, ast.Add) and isinstance(val.left, ast.BinOp) and isinstance(val.left.op, ast.Mult) and isinstance(val.right, ast.Subscript) \
            and isinstance(val.right.slice, ast.Slice) and val.right.slice.lower is None and val.right.slice.step is None:
        # L * q + L[:r]  with  q, r = divmod(n, len(L)):  q whole cycles followed by the first r wells
        Lq = [x for x in (val.left.left, val.left.right) if key(x) == key(val.right.value)]
        qs = [x for x in (val.left.left, val.left.right) if key(x) != key(val.right.value)]
        r_ = val.right.slice.upper
        okd = False
        if len(Lq) == 1 and len(qs) == 1 and is_sym(qs[0], "unpack") and is_sym(r_, "unpack") and key(qs[0].args[0]) == key(r_.args[0]) and qs[0].args[1].value == 0 and r_.args[1].value == 1:
            dm = qs[0].args[0]
            okd = isinstance(dm, ast.Call) and call_fname(dm) == "divmod" and len(dm.args) == 2 and is_name(dm.args[0], "n") and call_fname(dm.args[1]) == "len" and dm.args[1].args \
                and key(dm.args[1].args[0]) == key(Lq[0])
        if okd:
            L = Lq[0]
            chains = norm_chains(L)
            fl = [(nm, c) for ch in chains for nm, c in ch if nm in ("flatten", "ravel")]
            orders = [flatten_order(nm, c) for nm, c in fl]
            extra = seq_transformers(L)
            ctx.rep.check(is_name(strip_norm(L), "trough_wells") and not extra, "C19.cycle", f"{f.qualname}/wells", "the cycled list is exactly the given wells",
                          f"the cycled list is `{show(L)[:80]}`: the given wells are transformed ({extra or 'different origin'}) before cycling", where=w)
            ctx.rep.check(bool(fl) and all(o == "F" for o in orders), "C19.cycle", f"{f.qualname}/column-major", "the wells are read column-major ('F')",
                          f"the wells are flattened with order {orders or 'none'}: a 2-D collection is not read column-major", where=w)
            islist = any(nm in ("list", "tolist") for ch in chains for nm, c in ch)
            ctx.rep.check(islist, "C19.cycle", f"{f.qualname}/list-repeat", "L is a Python list (so L * k repeats instead of multiplying)", "the flattened wells are not converted to a list before `* k`", where=w)
            ctx.rep.holds("C19.cycle", f"{f.qualname}/repeat-count", "L * (n // len(L)) + L[:n % len(L)] has exactly n elements, element i is L[i % len(L)]", where=w)
            return
    if not ok_shape:
        L2 = _modulo_cycle(fv, rn)
        if L2 is None:
            # vectorised spelling: L[arange(n) % M]   (fancy indexing with the running index taken modulo M)
            core = val
            while isinstance(core, ast.Call) and call_fname(core) in ("list", "tolist", "tuple") and (core.args or isinstance(core.func, ast.Attribute)):
                core = core.args[0] if core.args else core.func.value
            if isinstance(core, ast.Subscript) and isinstance(core.slice, ast.BinOp) and isinstance(core.slice.op, ast.Mod) and call_fname(core.slice.left) == "arange" \
                    and len(core.slice.left.args) == 1 and is_name(core.slice.left.args[0], "n"):
                ar = core.slice.left
                dt = [k_.value for k_ in ar.keywords if k_.arg == "dtype"]
                narrow = None
                if dt:
                    d = dt[0]
                    if isinstance(d, ast.Name):
                        r_ = ctx.prog.resolve_name(f.module, d.id)
                        if isinstance(r_, tuple) and r_[0] == "value" and r_[1].assigns.get(r_[2]) is not None:
                            d = r_[1].assigns[r_[2]]
                    dname = d.attr if isinstance(d, ast.Attribute) else d.id if isinstance(d, ast.Name) else d.value if isinstance(d, ast.Constant) else None
                    bits = {"uint8": 8, "int8": 7, "uint16": 16, "int16": 15, "ubyte": 8, "byte": 7, "short": 15, "ushort": 16, "u1": 8, "i1": 7, "u2": 16, "i2": 15, "bool": 1, "bool_": 1}
                    wide = {"int": 63, "int64": 63, "intp": 63, "uint64": 64, "int32": 31, "uint32": 32, "int_": 63, "uint": 64, "uintp": 64, "longlong": 63}
                    if dname in bits:
                        narrow = (dname, 2 ** bits[dname])
                    elif dname not in wide:
                        ctx.rep.inconclusive("C19.cycle", f"{f.qualname}/index-dtype", f"cannot tell the range of the index dtype `{show(dt[0])[:30]}`", where=w)
                        return
                if narrow is not None:
                    ctx.rep.refuted("C19.cycle", f"{f.qualname}/index-dtype", f"the running index is built as `{show(ar)[:60]}` with dtype {narrow[0]}: it wraps around at {narrow[1]} before the modulo is taken, "
                                    f"so from element {narrow[1]} on the cycle restarts at the first well (wrong whenever the number of wells does not divide {narrow[1]})", where=w)
                    return
                ctx.rep.holds("C19.cycle", f"{f.qualname}/index-dtype", "the running index 0..n-1 is a platform integer", where=w)
                L2 = (core.value, core.slice.right)
        if L2 is None:
            # the successor looked up by *value*: L[(L.index(<previous well>) + 1) % len(L)] follows the first occurrence of a
            # well that the collection names twice, not the position that was reached
            by_value = [x for x in own_walk(f.node) if isinstance(x, ast.Call) and isinstance(x.func, ast.Attribute) and x.func.attr == "index" and len(x.args) >= 1
                        and any(isinstance(y, ast.Subscript) for y in ast.walk(x.args[0]))]
            if by_value:
                ctx.rep.refuted("C19.cycle", f"{f.qualname}/idiom", f"the next well is found with `{show(by_value[0])[:60]}`, i.e. by the value of the previous one: `.index` returns the first "
                                "occurrence, so a collection that lists a well twice (A01, B01, A01, C01) is not cycled in the given order", where=f.where(by_value[0]))
                return
            ctx.rep.inconclusive("C19.cycle", f"{f.qualname}/idiom", f"result `{show(val)[:80]}` is neither the repeat-and-truncate idiom (L * k)[:n] nor the loop [L[i % len(L)] for i in range(n)]", where=w)
            return
        L, M = L2
        base_ok = is_name(strip_norm(L), "trough_wells")
        # the modulus is the number of wells that are cycled
        same_base = call_fname(M) == "len" and M.args and key(strip_norm(M.args[0])) == key(strip_norm(L))
        flat_L = bool([1 for ch in norm_chains(L) for nm, c in ch if nm in ("flatten", "ravel")])
        flat_M = bool(same_base and [1 for ch in norm_chains(M.args[0]) for nm, c in ch if nm in ("flatten", "ravel")])
        if same_base and (flat_M or not flat_L):
            ctx.rep.holds("C19.cycle", f"{f.qualname}/modulus", "element i is L[i % len(L)]", where=w)
        elif same_base:
            ctx.rep.refuted("C19.cycle", f"{f.qualname}/modulus", f"the index is taken modulo `{show(M)[:50]}`, the length of the wells *before* they are flattened: for a 2-D collection that is "
                            "the number of rows, so only the first column is cycled", where=w)
        else:
            ctx.rep.inconclusive("C19.cycle", f"{f.qualname}/modulus", f"cannot relate the modulus `{show(M)[:50]}` to the number of cycled wells", where=w)
        extra = seq_transformers(L)
        ctx.rep.check(base_ok and not extra, "C19.cycle", f"{f.qualname}/wells", "the cycled list is exactly the given wells",
                      f"the cycled list is `{show(L)[:80]}`: the given wells are transformed ({extra or 'different origin'}) before cycling - the cycle is not over all given wells in their order", where=w)
        fl = [(nm, c) for ch in norm_chains(L) for nm, c in ch if nm in ("flatten", "ravel")]
        orders = [flatten_order(nm, c) for nm, c in fl]
        ctx.rep.check(bool(fl) and all(o == "F" for o in orders), "C19.cycle", f"{f.qualname}/column-major", "the wells are read column-major ('F')",
                      f"the wells are flattened with order {orders or 'none'}: a 2-D collection is not read column-major", where=w)
        ctx.rep.holds("C19.cycle", f"{f.qualname}/list-repeat", "element i is L[i % len(L)] by construction (no list repetition involved)", where=w)
        ctx.rep.holds("C19.cycle", f"{f.qualname}/repeat-count", "one element is appended for every i in range(n)", where=w)
        return
    a, b = val.value.left, val.value.right
    L, k = (a, b) if is_name(strip_norm(a), "trough_wells") or not is_name(strip_norm(b), "trough_wells") else (b, a)
    base_ok = is_name(strip_norm(L), "trough_wells")
    extra = seq_transformers(L)
    ctx.rep.check(base_ok and not extra, "C19.cycle", f"{f.qualname}/wells", "the cycled list is exactly the given wells",
                  f"the cycled list is `{show(L)[:80]}`: the given wells are transformed ({extra or 'different origin'}) before cycling - the cycle is not over all given wells in their order", where=w)
    chains = norm_chains(L)
    fl = [(nm, c) for ch in chains for nm, c in ch if nm in ("flatten", "ravel")]
    orders = []
    for nm, c in fl:
        orders.append(flatten_order(nm, c))
    ctx.rep.check(bool(fl) and all(o == "F" for o in orders), "C19.cycle", f"{f.qualname}/column-major", "the wells are read column-major ('F')",
                  f"the wells are flattened with order {orders or 'none'}: a 2-D collection is not read column-major", where=w)
    islist = any(nm in ("list", "tolist") for ch in chains for nm, c in ch)
    ctx.rep.check(islist, "C19.cycle", f"{f.qualname}/list-repeat", "L is a Python list (so L * k repeats instead of multiplying)", "the flattened wells are not converted to a list before `* k` (an ndarray would be multiplied, not repeated)", where=w)
    # k
    lenL = Poly.symbol(ast.Call(func=ast.Name(id="len", ctx=ast.Load()), args=[L], keywords=[]))

    def is_len(e):
        return call_fname(e) == "len" and e.args and key(strip_norm(e.args[0])) == key(strip_norm(L))

    good = False
    bad = ""
    kk = k
    if isinstance(kk, ast.BinOp) and isinstance(kk.op, ast.Add):
        parts = [kk.left, kk.right]
        fd = [p_ for p_ in parts if isinstance(p_, ast.BinOp) and isinstance(p_.op, ast.FloorDiv)]
        one = [p_ for p_ in parts if isinstance(p_, ast.Constant) and p_.value >= 1]
        if len(fd) == 1 and len(one) == 1 and is_name(fd[0].left, "n") and is_len(fd[0].right):
            good = True
    elif isinstance(kk, ast.Call) and call_fname(kk) == "ceil" and kk.args and isinstance(kk.args[0], ast.BinOp) and isinstance(kk.args[0].op, ast.Div) and is_name(kk.args[0].left, "n") and is_len(kk.args[0].right):
        good = True
    elif isinstance(kk, ast.UnaryOp) and isinstance(kk.op, ast.USub) and isinstance(kk.operand, ast.BinOp) and isinstance(kk.operand.op, ast.FloorDiv) \
            and isinstance(kk.operand.left, ast.UnaryOp) and isinstance(kk.operand.left.op, ast.USub) and is_name(kk.operand.left.operand, "n") and is_len(kk.operand.right):
        good = True
    elif isinstance(kk, ast.BinOp) and isinstance(kk.op, ast.FloorDiv) and is_name(kk.left, "n") and is_len(kk.right):
        bad = "k = n // len(L) repeats one block too few unless n is a multiple of len(L): fewer than n wells are returned"
    if good:
        ctx.rep.holds("C19.cycle", f"{f.qualname}/repeat-count", f"k = `{show(k)[:50]}` guarantees k*len(L) >= n", where=w)
    elif bad:
        ctx.rep.refuted("C19.cycle", f"{f.qualname}/repeat-count", bad, where=w)
    else:
        ctx.rep.inconclusive("C19.cycle", f"{f.qualname}/repeat-count", f"repeat count `{show(k)[:60]}` is not one of the known forms with k*len(L) >= n", where=w)
