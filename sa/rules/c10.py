"""C10 - tip selections encode to the Tecan tip bit mask (finite tables + aggregation shape)."""
from __future__ import annotations

import ast
from typing import Dict, List, Optional, Tuple

from ..canon import Cmp, Poly, to_cmp, to_poly
from ..defuse import is_sym, key, show, strip_norm
from ..engine import Hole, own_walk, return_exprs, template_parts
from ..model import AnalysisInconclusive
from .common import attr_of_name, call_fname, concrete_devices, elem_parts, is_name, raise_class, seq_transformers, stmt_key

EXPLANATION = (
    "C10: finite tables are read from the source and checked exhaustively (Tip members T1..T8 = 2**(n-1), Any = -1, "
    "IntEnum; int_to_tip maps exactly k -> Tk for k = 1..8 and raises ValueError otherwise; the EVO slot list equals the "
    "ascending enum values). Every fold of a tip collection into one mask must be idempotent on repeated members "
    "(sum(set(..)) / |=) or run over a sequence that a validator establishes duplicate-free; conversion happens before "
    "de-duplication; Tip.Any is rejected inside collections and maps to the empty field alone; non-int/non-Tip elements "
    "are rejected; one slot string per slot on both branches; both records of a transfer pair get the same kwargs."
)
ASSUMPTIONS = ["distinct powers of two: OR of members = sum over the set of members"]


def run(ctx) -> None:
    from . import objmodel

    ctx.guard("C10.enum", objmodel.unique_classes, "C10.enum", ("Tip",), "members of the exported `Tip` are no instances of the `Tip` the validators test against: they are read as tip numbers or refused")
    ctx.guard("C10.enum", enum_table)
    ctx.guard("C10.int-map", int_map)
    ctx.guard("C10.aggregate", aggregate_records)
    ctx.guard("C10.mask-range", mask_range)
    ctx.guard("C10.tip-table", tip_table)
    ctx.guard("C10.wash-table", wash_table)
    ctx.guard("C10.evo-tip-table", evo_tip_table)
    ctx.guard("C10.aggregate", aggregate_evo)
    ctx.guard("C10.aggregate", evo_member_conversion)
    ctx.guard("C10.any", any_rules)
    ctx.guard("C10.slots", slots)
    from . import c07

    for dev in concrete_devices(ctx):
        ctx.reuse("C10.same-mask", c07.step_block, dev)
        # aspirate()/dispense() hand the tip selection to every record unchanged (one mask for all wells of the call)
        from . import c01

        for meth, track, kind in (("aspirate", "remove", "A"), ("dispense", "add", "D")):
            ctx.reuse("C10.same-mask", c01.pair_ad, dev, meth, track, kind)
    # "the i-th volume slot belongs to tip i": the converted tips are strictly ascending and paired one-to-one with the slots
    from . import c13

    ctx.reuse("C10.slot-order", c13.one_to_one)
    # aspirate and dispense take the tips in the same argument position and build the mask the same way
    ctx.reuse("C10.slot-order", c13.siblings)
    # the i-th volume slot belongs to tip i in *this* command: the slots are filled from the command's own arguments, not from
    # a template / list that lives longer than the call
    for _name in ("evo_aspirate", "evo_dispense"):
        ctx.reuse("C10.slot-order", c13.asp_template, _name)
    # the tips the caller gives to EvoWorklist.evo_wash are the tips the command is built from
    ctx.reuse("C10.aggregate", c13.wash_passthrough)
    # the record emitters hand the caller's tip to the validator as it was given (no default substituted for falsy values)
    from . import c09

    ctx.reuse("C10.type-guard", c09.ad_slots)
    for name_, track_ in (("evo_aspirate", "remove"), ("evo_dispense", "add")):
        ctx.reuse("C10.tips-unchanged", c13.same_args, name_, track_)


def _tip_table(ctx, rule) -> Dict[str, int]:
    c = ctx.prog.require_class("Tip", rule)
    out = {}
    for k, v in c.class_assigns.items():
        val = v
        if isinstance(val, ast.UnaryOp) and isinstance(val.op, ast.USub) and isinstance(val.operand, ast.Constant):
            out[k] = -val.operand.value
        elif isinstance(val, ast.Constant) and isinstance(val.value, int):
            out[k] = val.value
        elif isinstance(val, ast.BinOp) and isinstance(val.op, (ast.Pow, ast.LShift)) and isinstance(val.left, ast.Constant) and isinstance(val.right, ast.Constant):
            out[k] = val.left.value ** val.right.value if isinstance(val.op, ast.Pow) else val.left.value << val.right.value
        else:
            raise AnalysisInconclusive(rule, f"Tip.{k}", f"member value `{show(v)}` is not a literal")
    return out


def enum_table(ctx) -> None:
    rule = "C10.enum"
    c = ctx.prog.require_class("Tip", rule)
    table = _tip_table(ctx, rule)
    where = f"{c.module.relpath}:{c.node.lineno} (Tip)"
    want = {f"T{n}": 2 ** (n - 1) for n in range(1, 9)}
    want["Any"] = -1
    for k, v in want.items():
        ctx.rep.check(table.get(k) == v, rule, f"{c.qualname}/{k}", f"Tip.{k} == {v}", f"Tip.{k} is {table.get(k)}; the Tecan mask of {'tip ' + k[1:] if k != 'Any' else 'any tip'} is {v}", where=where)
    extra = sorted(set(table) - set(want))
    ctx.rep.check(not extra, rule, f"{c.qualname}/members", "exactly T1..T8 and Any", f"unexpected members {extra}", where=where)
    ctx.rep.check("IntEnum" in ctx.prog.mro_names(c), rule, f"{c.qualname}/base", "Tip is an IntEnum", "Tip is not an IntEnum (members would not compare/sum as integers)", where=where)


def _static_seq(ctx, f, e: ast.AST):
    """Statically evaluate a sequence of Tip members: tuple/list literal, the Tip enum itself (definition order),
    or a module-level name bound to one of these.  -> list of member names | None"""
    if isinstance(e, ast.Name):
        if e.id == "Tip":
            return list(_tip_table(ctx, "C10.int-map").keys())
        if e.id in f.module.assigns:
            return _static_seq(ctx, f, f.module.assigns[e.id])
        return None
    if isinstance(e, (ast.Tuple, ast.List)):
        out = []
        for x in e.elts:
            if isinstance(x, ast.Attribute) and is_name(x.value, "Tip"):
                out.append(x.attr)
            else:
                return None
        return out
    if isinstance(e, ast.Call) and call_fname(e) in ("list", "tuple") and len(e.args) == 1:
        return _static_seq(ctx, f, e.args[0])
    if isinstance(e, ast.Subscript) and isinstance(e.slice, ast.Slice):
        base = _static_seq(ctx, f, e.value)
        parts = [e.slice.lower, e.slice.upper, e.slice.step]
        if base is not None and all(p is None or (isinstance(p, ast.Constant) and isinstance(p.value, int)) or
                                    (isinstance(p, ast.UnaryOp) and isinstance(p.op, ast.USub) and isinstance(p.operand, ast.Constant)) for p in parts):
            val = [None if p is None else (p.value if isinstance(p, ast.Constant) else -p.operand.value) for p in parts]
            return base[val[0]:val[1]:val[2]]
    return None


def _static_table(ctx, f, e: ast.AST):
    """Statically evaluate a number -> Tip member table: dict literal, dict(enumerate(seq[, start])),
    dict(zip(range(a, b), seq)), or a module-level name bound to one.  -> {int: member name} | None"""
    if isinstance(e, ast.Name) and e.id in f.module.assigns:
        return _static_table(ctx, f, f.module.assigns[e.id])
    if isinstance(e, ast.Dict):
        out = {}
        for k, v in zip(e.keys, e.values):
            if isinstance(k, ast.Constant) and isinstance(v, ast.Attribute) and is_name(v.value, "Tip"):
                out[k.value] = v.attr
            else:
                return None
        return out
    if isinstance(e, ast.Call) and call_fname(e) == "dict" and len(e.args) == 1 and isinstance(e.args[0], ast.Call):
        inner = e.args[0]
        if call_fname(inner) == "enumerate" and inner.args:
            seq = _static_seq(ctx, f, inner.args[0])
            start = inner.args[1] if len(inner.args) > 1 else next((k.value for k in inner.keywords if k.arg == "start"), ast.Constant(value=0))
            if seq is not None and isinstance(start, ast.Constant):
                return {start.value + i: m for i, m in enumerate(seq)}
        if call_fname(inner) == "zip" and len(inner.args) == 2 and isinstance(inner.args[0], ast.Call) and call_fname(inner.args[0]) == "range":
            seq = _static_seq(ctx, f, inner.args[1])
            ra = inner.args[0].args
            if seq is not None and all(isinstance(x, ast.Constant) for x in ra):
                rng = list(range(*[x.value for x in ra]))
                return dict(zip(rng, seq))
    return None


def _int_map_evaluated(ctx, rule: str, f) -> bool:
    """Fallback for a lookup written in a form the structural rule does not know: int_to_tip is interpreted (rules/init_model.py,
    nothing of the repository is executed) for the numbers -3..12; 1..8 must give Tip.T1..T8, everything else must raise.
    -> False when the evaluation is incomplete (the caller then reports INCONCLUSIVE)."""
    from . import init_model as IM

    members = _tip_table(ctx, rule)
    enums = {"Tip": dict(members)}
    got = {}
    for k in range(-3, 13):
        kind, val = IM.run_function(f, {f.params[0]: k}, ctx.prog, enums)
        if kind == "raise":
            got[k] = None
        elif kind == "return" and isinstance(val, IM.EnumVal):
            got[k] = val.member
        else:
            return False
    bad = [(k, m) for k, m in sorted(got.items()) if m != (f"T{k}" if 1 <= k <= 8 else None)]
    c = f"{f.qualname}/evaluated"
    if bad:
        k, m = bad[0]
        ctx.rep.refuted(rule, c, f"tip number {k} " + (f"is mapped to Tip.{m}" if m is not None else "is rejected") + (f"; the property requires Tip.T{k}" if 1 <= k <= 8 else "; a number outside 1..8 must be rejected"), where=f.where())
    else:
        ctx.rep.holds(rule, c, "1..8 -> Tip.T1..T8 and -3..0, 9..12 are rejected (evaluated for the 16 numbers; bounded argument)", where=f.where())
    # the refusal is a ValueError
    fv = ctx.fv(f)
    raises = [raise_class(fv, s_)[0] for s_ in own_walk(f.node) if isinstance(s_, ast.Raise)]
    ctx.rep.check(bool(raises) and set(raises) == {"ValueError"}, rule, f"{f.qualname}/else", "everything else raises ValueError", "numbers outside 1..8 do not end in raise ValueError", where=f.where())
    return True


def int_map(ctx) -> None:
    rule = "C10.int-map"
    f = ctx.prog.require_func("int_to_tip", rule)
    fv = ctx.fv(f)
    arg = f.params[0]
    pairs = {}
    table_form = None
    for n in fv.return_nodes():
        raw = n.ast.value
        v = fv.res.resolve(raw, n.id)
        # (c) table lookup  T[arg]  /  T[arg - 1]  /  T.get(arg)
        lookup = raw if isinstance(raw, ast.Subscript) else None
        if lookup is not None and isinstance(lookup.value, ast.Name):
            tab = _static_table(ctx, f, lookup.value)
            seq = _static_seq(ctx, f, lookup.value) if tab is None else None
            off = to_poly(lookup.slice) - Poly.symbol(ast.Name(id=arg, ctx=ast.Load()))
            if tab is not None and off.is_zero():
                table_form = (n, tab)
                continue
            if seq is not None and off.is_const():
                # list/tuple indexing: negative indices wrap around, so the accepted numbers must be bounded by guards
                k0 = -int(off.const_value())
                lo_ok = hi_ok = False
                A = Poly.symbol(ast.Name(id=arg, ctx=ast.Load()))
                for r, pol, br in fv.atoms_at(n.id):
                    cm = to_cmp(r, pol)
                    if cm is not None and cm == Cmp(A - Poly.const(k0), ">="):
                        lo_ok = True
                    if cm is not None and (cm == Cmp(Poly.const(k0 + len(seq) - 1) - A, ">=") or cm == Cmp(Poly.const(k0 + len(seq)) - A, ">")):
                        hi_ok = True
                if lo_ok:
                    table_form = (n, {k0 + i: m for i, m in enumerate(seq)})
                else:
                    ctx.rep.refuted(rule, f"{f.qualname}/lookup", f"`{stmt_key(n.ast)}` indexes a sequence without a lower-bound guard: numbers below {k0} wrap around (0 maps to the last tip) instead of being rejected", where=f.where(n.ast))
                    return
                continue
        # (a) if-chain / (b) loop over enumerate(seq, start): return under exactly one `arg == k`
        ks = []
        for r, pol, br in fv.atoms_at(n.id):
            if isinstance(r, ast.Compare) and len(r.ops) == 1 and isinstance(r.ops[0], ast.Eq) and pol and (is_name(r.left, arg) or is_name(r.comparators[0], arg)):
                other = r.comparators[0] if is_name(r.left, arg) else r.left
                ks.append(other)
        if len(ks) != 1:
            if not _int_map_evaluated(ctx, rule, f):
                ctx.rep.inconclusive(rule, f"{f.qualname}/return[{show(v)[:30]}]", f"return `{stmt_key(n.ast)}` is not guarded by exactly one `{arg} == k` (unrecognised lookup)", where=f.where(n.ast))
            return
        k = ks[0]
        if isinstance(k, ast.Constant):
            member = v.attr if isinstance(v, ast.Attribute) and is_name(v.value, "Tip") else None
            if member is None:
                ctx.rep.inconclusive(rule, f"{f.qualname}/return[{show(v)[:30]}]", "returned value is not a Tip member", where=f.where(n.ast))
                return
            pairs[k.value] = member
        else:
            # loop form: k = §idx(loop, seq) + start ; value = §elem(loop, seq)
            kp = to_poly(k)
            idx_syms = [s_ for s_ in ast.walk(k) if is_sym(s_, "idx")]
            if len(idx_syms) == 1 and is_sym(v, "elem") and key(v.args[0]) == key(idx_syms[0].args[0]):
                start = kp - Poly.symbol(idx_syms[0])
                raw_loop = [h for h in fv.cfg.enclosing_loops(n.id) if fv.cfg.nodes[h].kind == "for"]
                seq = None
                if raw_loop:
                    it = fv.cfg.nodes[raw_loop[-1]].ast.iter
                    if isinstance(it, ast.Call) and call_fname(it) == "enumerate" and it.args:
                        seq = _static_seq(ctx, f, it.args[0])
                if seq is not None and start.is_const() and not fv.cfg.loop_has_break.get(raw_loop[-1]):
                    for i, m in enumerate(seq):
                        pairs[int(start.const_value()) + i] = m
                    continue
            if not _int_map_evaluated(ctx, rule, f):
                ctx.rep.inconclusive(rule, f"{f.qualname}/return[{show(v)[:30]}]", "unrecognised table loop", where=f.where(n.ast))
            return
    if table_form is not None:
        n, tab = table_form
        pairs.update(tab)
    for k, member in sorted(pairs.items(), key=lambda kv: str(kv[0])):
        ctx.rep.check(member == f"T{k}", rule, f"{f.qualname}/{k}", f"{k} -> Tip.T{k}", f"tip number {k} is mapped to Tip.{member}" + (" (a number outside 1..8 must be rejected)" if k not in range(1, 9) else ""), where=f.where())
    ctx.rep.check(sorted(pairs, key=str) == list(range(1, 9)), rule, f"{f.qualname}/domain", "exactly the numbers 1..8 are mapped", f"mapped numbers are {sorted(pairs, key=str)}; expected exactly 1..8", where=f.where())
    # every other path raises ValueError
    falls_through = fv.cfg.exit in {s for n in fv.cfg.nodes if not (n.kind == "stmt" and isinstance(n.ast, ast.Return)) for s, lab in n.succ if n.id in fv.cfg.reachable_from(fv.cfg.entry)}
    raises = [raise_class(fv, s)[0] for s in own_walk(f.node) if isinstance(s, ast.Raise)]
    ctx.rep.check(not falls_through and bool(raises) and set(raises) == {"ValueError"}, rule, f"{f.qualname}/else", "everything else raises ValueError", "numbers outside 1..8 do not end in raise ValueError", where=f.where())


# ------------------------------------------------------------------------------- aggregation
def _tip_host(ctx, rule: str):
    """(function, view, name of the tip variable, loop node, resolved iterable) of the code that converts a tip collection:
    prepare_aspirate_dispense_parameters itself, or a new helper it hands its `tip` argument to."""
    f0 = ctx.prog.require_func("prepare_aspirate_dispense_parameters", rule)
    cands = [(f0, ctx.fv(f0), "tip")]
    fv0 = ctx.fv(f0)
    for cs in fv0.calls():
        hv = fv0._helper_view(cs.call)
        if hv is None:
            continue
        g, conc = hv
        for i, a in enumerate(cs.call.args):
            if is_name(a, "tip") and i < len(g.params):
                cands.append((g, ctx.fv(g, conc), g.params[i]))
        for k in cs.call.keywords:
            if k.arg and is_name(k.value, "tip") and k.arg in g.params:
                cands.append((g, ctx.fv(g, conc), k.arg))
    for f, fv, tname in cands:
        for lp in (n for n in fv.cfg.nodes if n.kind == "for"):
            it = fv.res.resolve(lp.ast.iter, lp.id)
            if tname in {s_.id for s_ in ast.walk(it) if isinstance(s_, ast.Name)}:
                return f, fv, tname, lp, it
    return f0, fv0, "tip", None, None


def _const_eval(ctx, module, e: ast.AST, depth: int = 0):
    """Integer value of a constant expression over the Tip enum (Tip.T3, sum(Tip), max(Tip), 2 ** 8 - 1, a module-level
    name bound to one of these - also when imported from another module of the package) or None."""
    if depth > 6:
        return None
    if isinstance(e, ast.Constant) and isinstance(e.value, int) and not isinstance(e.value, bool):
        return e.value
    table = _tip_table(ctx, "C10.mask-range")
    if isinstance(e, ast.Attribute) and is_name(e.value, "Tip"):
        return table.get(e.attr)
    if isinstance(e, ast.Attribute) and e.attr == "value":
        return _const_eval(ctx, module, e.value, depth + 1)
    if isinstance(e, ast.Name):
        r = ctx.prog.resolve_name(module, e.id)
        if isinstance(r, tuple) and r[0] == "value":
            v = r[1].assigns.get(r[2])
            return _const_eval(ctx, r[1], v, depth + 1) if v is not None else None
        return None
    if isinstance(e, ast.UnaryOp) and isinstance(e.op, ast.USub):
        v = _const_eval(ctx, module, e.operand, depth + 1)
        return -v if v is not None else None
    if isinstance(e, ast.BinOp):
        a, b = _const_eval(ctx, module, e.left, depth + 1), _const_eval(ctx, module, e.right, depth + 1)
        if a is None or b is None:
            return None
        ops = {ast.Add: lambda x, y: x + y, ast.Sub: lambda x, y: x - y, ast.BitOr: lambda x, y: x | y, ast.Mult: lambda x, y: x * y,
               ast.Pow: lambda x, y: x ** y if 0 <= y < 64 else None, ast.LShift: lambda x, y: x << y if 0 <= y < 64 else None}
        fn = ops.get(type(e.op))
        return fn(a, b) if fn else None
    if isinstance(e, ast.Call) and call_fname(e) in ("sum", "max", "min", "int", "len") and len(e.args) == 1:
        arg = e.args[0]
        if call_fname(e) == "int":
            return _const_eval(ctx, module, arg, depth + 1)
        vals = None
        if is_name(arg, "Tip"):
            vals = list(table.values())
        elif isinstance(arg, (ast.GeneratorExp, ast.ListComp)) and len(arg.generators) == 1 and is_name(arg.generators[0].iter, "Tip") and isinstance(arg.generators[0].target, ast.Name):
            g = arg.generators[0]
            var = g.target.id
            vals = []
            for name, val in table.items():
                def sub(x):
                    return _subst_member(x, var, name)
                keep = True
                for cond in g.ifs:
                    cv = _cond_eval(ctx, module, sub(cond), depth + 1)
                    if cv is None:
                        return None
                    keep = keep and cv
                if keep:
                    ev = _const_eval(ctx, module, sub(arg.elt), depth + 1)
                    if ev is None:
                        return None
                    vals.append(ev)
        elif isinstance(arg, (ast.Tuple, ast.List)):
            vals = [_const_eval(ctx, module, x, depth + 1) for x in arg.elts]
        if vals is None or any(v is None for v in vals):
            return None
        return {"sum": sum, "max": max, "min": min, "len": len}[call_fname(e)](vals) if vals or call_fname(e) in ("sum", "len") else None
    return None


def _subst_member(x: ast.AST, var: str, member: str) -> ast.AST:
    class T(ast.NodeTransformer):
        def visit_Name(self, n):
            if n.id == var:
                return ast.Attribute(value=ast.Name(id="Tip", ctx=ast.Load()), attr=member, ctx=ast.Load())
            return n

    import copy

    return T().visit(copy.deepcopy(x))


def _cond_eval(ctx, module, e: ast.AST, depth: int):
    if isinstance(e, ast.UnaryOp) and isinstance(e.op, ast.Not):
        v = _cond_eval(ctx, module, e.operand, depth + 1)
        return None if v is None else not v
    if isinstance(e, ast.Compare) and len(e.ops) == 1:
        a, b = _const_eval(ctx, module, e.left, depth + 1), _const_eval(ctx, module, e.comparators[0], depth + 1)
        if a is None or b is None:
            return None
        op = e.ops[0]
        table = {ast.Eq: a == b, ast.NotEq: a != b, ast.Lt: a < b, ast.LtE: a <= b, ast.Gt: a > b, ast.GtE: a >= b, ast.Is: a == b, ast.IsNot: a != b}
        return table.get(type(op))
    return None


def tip_table(ctx) -> None:
    """The tip field of an A/D record, evaluated for a table of tip arguments: prepare_aspirate_dispense_parameters (with
    int_to_tip and any new helpers) is interpreted by the interpreter of rules/init_model.py - nothing of the repository is
    executed - for single tips, numbers, collections of every kind and invalid values; the field it returns (or the fact that
    it raises) is compared with what the property prescribes."""
    from . import init_model as IM

    rule = "C10.tip-table"
    v = ctx.prog.require_func("prepare_aspirate_dispense_parameters", rule)
    members = _tip_table(ctx, rule)
    enums = {"Tip": dict(members)}

    def T(name):
        return IM.EnumVal(members[name], "Tip", name)

    RAISE = "raises"
    cases = [("Tip.Any", T("Any"), "")]
    for i in range(1, 9):
        cases.append((f"Tip.T{i}", T(f"T{i}"), 2 ** (i - 1)))
        cases.append((str(i), i, 2 ** (i - 1)))
    cases += [("0", 0, RAISE), ("9", 9, RAISE), ("-1", -1, RAISE), ("2.0", 2.0, RAISE), ("None", None, RAISE),
              ("[1]", [1], 1), ("[8]", [8], 128), ("[Tip.T3]", [T("T3")], 4), ("(2,)", (2,), 2), ("[1, 2]", [1, 2], 3), ("(1, 4)", (1, 4), 9), ("[Tip.T1, 2]", [T("T1"), 2], 3),
              ("[1, 1]", [1, 1], 1), ("[Tip.T3, 3]", [T("T3"), 3], 4), ("[Tip.T3, 4]", [T("T3"), 4], 12), ("[1, 2, 3, 4, 5, 6, 7, 8]", list(range(1, 9)), 255),
              ("[1, 2, 3, 4, 5, 6, 7, 8, 1]", list(range(1, 9)) + [1], 255), ("[1..8] + [Tip.T1..Tip.T8]", list(range(1, 9)) + [T(f"T{i}") for i in range(1, 9)], 255),
              ("[Tip.Any]", [T("Any")], RAISE), ("[1, Tip.Any]", [1, T("Any")], RAISE), ("[0]", [0], RAISE), ("[9]", [9], RAISE), ("[2.0]", [2.0], RAISE), ("[[1, 2]]", [[1, 2]], RAISE),
              ("[None]", [None], RAISE)]
    bad = None
    unknown = None
    n = 0
    for text, tip, want in cases:
        params = dict(rack_label="Plate", position=1, volume=10.0, liquid_class="", tip=tip, rack_id="", tube_id="", rack_type="", forced_rack_type="", max_volume=None)
        kind, val = IM.run_function(v, {k: x for k, x in params.items() if k in v.params}, ctx.prog, enums)
        n += 1
        if kind == "raise":
            got = RAISE
        elif kind == "return" and isinstance(val, (tuple, list)) and len(val) == 9 and val[4] is not IM.UNK:
            got = val[4]
            got = int(got) if isinstance(got, int) and not isinstance(got, bool) else got
        else:
            unknown = unknown or text
            continue
        if got != want and bad is None:
            bad = (text, want, got)
    ctx.rep.touch(v)
    c = f"{v.qualname}/tip-field"
    if bad is not None:
        text, want, got = bad
        ctx.rep.refuted(rule, c, f"for tip={text} the validator {'raises' if got == RAISE else f'returns the mask field {got!r}'}; the property requires "
                        f"{'a rejection (ValueError)' if want == RAISE else f'the field {want!r}'}", where=v.where())
    elif unknown is not None:
        ctx.rep.inconclusive(rule, c, f"the tip field could not be evaluated for tip={unknown} (construct outside the interpreter's fragment)", where=v.where())
    else:
        ctx.rep.holds(rule, c, f"the tip field / the rejection is as prescribed for all {n} tip arguments of the evaluation table (bounded argument)", where=v.where())


def wash_table(ctx) -> None:
    """The mask of B;Wash for a table of tip lists: evo_wash (with its validator and any new helpers) is interpreted by the
    interpreter of rules/init_model.py - nothing of the repository is executed - with otherwise valid parameters; the first
    number of the command must be the OR of the given tips in any order and with repeats, invalid tips must be refused."""
    from . import init_model as IM

    rule = "C10.wash-table"
    f = ctx.prog.func("robotools.evotools.commands:evo_wash")
    if f is None:
        raise AnalysisInconclusive(rule, "evo_wash", "formatter not found")
    members = _tip_table(ctx, rule)
    enums = {"Tip": dict(members)}

    def T(name):
        return IM.EnumVal(members[name], "Tip", name)

    base = dict(waste_location=(52, 2), cleaner_location=(52, 1), arm=0, waste_vol=3.0, waste_delay=500, cleaner_vol=4.0, cleaner_delay=500, airgap=10, airgap_speed=70, retract_speed=30, fastwash=1,
                low_volume=0)
    RAISE = "raises"
    cases = [("[1]", [1], 1), ("[8]", [8], 128), ("[1, 2]", [1, 2], 3), ("[2, 1]", [2, 1], 3), ("[1, 1]", [1, 1], 1), ("[Tip.T3, 3]", [T("T3"), 3], 4), ("[Tip.T8, Tip.T1]", [T("T8"), T("T1")], 129),
             ("[1, 2, 3, 4, 5, 6, 7, 8]", list(range(1, 9)), 255), ("[8, 7, 6, 5, 4, 3, 2, 1]", list(range(8, 0, -1)), 255), ("(4, 2)", (4, 2), 10),
             ("[Tip.Any]", [T("Any")], RAISE), ("[1, Tip.Any]", [1, T("Any")], RAISE), ("[0]", [0], RAISE), ("[9]", [9], RAISE), ("[2.0]", [2.0], RAISE), ("None", None, RAISE)]
    bad = unknown = None
    n = 0
    for text, tips, want in cases:
        params = dict(base, tips=tips)
        if not set(params) <= set(f.params):
            unknown = unknown or "<signature changed>"
            break
        kind, val = IM.run_function(f, params, ctx.prog, enums)
        n += 1
        if kind == "raise":
            got = RAISE
        elif kind == "return" and isinstance(val, str) and val.startswith("B;Wash(") and val[7:].split(",")[0].lstrip("-").isdigit():
            got = int(val[7:].split(",")[0])
        else:
            unknown = unknown or text
            continue
        if got != want and bad is None:
            bad = (text, want, got)
    ctx.rep.touch(f)
    c = f"{f.qualname}/mask"
    if bad is not None:
        text, want, got = bad
        ctx.rep.refuted(rule, c, f"for tips={text} evo_wash {'raises' if got == RAISE else f'emits the mask {got}'}; the property requires "
                        f"{'a rejection (ValueError)' if want == RAISE else f'the mask {want} (OR of the given tips, in any order and with repeats)'}", where=f.where())
    elif unknown is not None:
        ctx.rep.inconclusive(rule, c, f"the wash command could not be evaluated for tips={unknown} (construct outside the interpreter's fragment)", where=f.where())
    else:
        ctx.rep.holds(rule, c, f"the wash mask / the rejection is as prescribed for all {n} tip lists of the evaluation table (bounded argument)", where=f.where())


def evo_tip_table(ctx) -> None:
    """The tips that the validator of B;Aspirate / B;Dispense hands to the formatter, for a table of tip lists:
    prepare_evo_aspirate_dispense_parameters is interpreted (rules/init_model.py; nothing of the repository is executed) with
    otherwise valid parameters. Numbers become their Tip members, Tip members stay, and Tip.Any, 0, 9, non-ints and
    non-ascending or repeated selections are refused (the i-th volume belongs to the i-th tip)."""
    from . import init_model as IM

    rule = "C10.evo-tip-table"
    g = ctx.prog.func("prepare_evo_aspirate_dispense_parameters")
    if g is None:
        raise AnalysisInconclusive(rule, "prepare_evo_aspirate_dispense_parameters", "validator not found")
    members = _tip_table(ctx, rule)
    enums = {"Tip": dict(members)}

    def T(name):
        return IM.EnumVal(members[name], "Tip", name)

    RAISE = "raises"
    W = ["A01", "B01", "C01", "D01", "E01", "F01", "G01", "H01"]
    cases = [("[1]", [1], ["T1"]), ("[8]", [8], ["T8"]), ("[Tip.T3]", [T("T3")], ["T3"]), ("[1, 2]", [1, 2], ["T1", "T2"]), ("[2, Tip.T5]", [2, T("T5")], ["T2", "T5"]),
             ("[Tip.T1, 8]", [T("T1"), 8], ["T1", "T8"]), ("[1, 2, 3, 4, 5, 6, 7, 8]", list(range(1, 9)), [f"T{i}" for i in range(1, 9)]),
             ("[Tip.Any]", [T("Any")], RAISE), ("[Tip.Any, 1]", [T("Any"), 1], RAISE), ("[1, Tip.Any]", [1, T("Any")], RAISE), ("[0]", [0], RAISE), ("[9]", [9], RAISE), ("[2.0]", [2.0], RAISE),
             ("[2, 1]", [2, 1], RAISE), ("[1, 1]", [1, 1], RAISE), ("[Tip.T3, 3]", [T("T3"), 3], RAISE), ("None", None, RAISE)]
    bad = unknown = None
    n = 0
    for text, tips, want in cases:
        k = len(tips) if isinstance(tips, list) else 1
        params = dict(wells=W[:k], labware_position=(30, 2), volume=10.0, liquid_class="Water", tips=tips, arm=0, max_volume=950)
        if not set(params) <= set(g.params):
            unknown = unknown or "<signature changed>"
            break
        kind, val = IM.run_function(g, params, ctx.prog, enums)
        n += 1
        if kind == "raise":
            got = RAISE
        elif kind == "return" and isinstance(val, (tuple, list)) and len(val) == 5 and isinstance(val[4], list) and all(isinstance(x, IM.EnumVal) for x in val[4]):
            got = [x.member for x in val[4]]
        else:
            unknown = unknown or text
            continue
        if got != want and bad is None:
            bad = (text, want, got)
    ctx.rep.touch(g)
    c = f"{g.qualname}/tips"
    if bad is not None:
        text, want, got = bad
        ctx.rep.refuted(rule, c, f"for tips={text} the validator {'raises' if got == RAISE else f'hands on the tips {got}'}; the property requires "
                        f"{'a rejection (ValueError)' if want == RAISE else f'the tips {want}'}", where=g.where())
    elif unknown is not None:
        ctx.rep.inconclusive(rule, c, f"the validator could not be evaluated for tips={unknown} (construct outside the interpreter's fragment)", where=g.where())
    else:
        ctx.rep.holds(rule, c, f"the converted tips / the rejection are as prescribed for all {n} tip lists of the evaluation table (bounded argument)", where=g.where())


def mask_range(ctx) -> None:
    """Every combination of tips 1-8 is a valid selection: whatever range check is applied to the folded mask accepts all of
    1..255 (the OR of any non-empty subset of the eight tips)."""
    from ..guards import dnf

    rule = "C10.mask-range"
    f, fv, TIP, lp, it = _tip_host(ctx, rule)
    if lp is None:
        ctx.rep.inconclusive(rule, f.qualname, "loop over the tip collection not found")
        return
    n = 0
    for gn, test, pol_raise, r in fv.raising_guards():
        if lp.id not in fv.cfg.completed_loops_at(gn.id):
            continue
        if not any(isinstance(x, ast.Name) and x.id == TIP for x in ast.walk(test)):
            continue
        c = f"{f.qualname}/guard[{show(test)[:40]}]"
        w = f.where(gn.ast)
        # the guard raises when some term of the DNF holds; evaluate each term over all masks 1..255
        rejected = None
        unknown = False
        for term in dnf(test, pol_raise):
            for mask in range(1, 256):
                vals = []
                for a in term:
                    e = _subst_value(a.expr, TIP, mask)
                    v = _cond_eval(ctx, f.module, e, 0)
                    vals.append(None if v is None else (v == a.pol))
                if any(v is False for v in vals):
                    continue
                if any(v is None for v in vals):
                    unknown = True
                    continue
                rejected = mask if rejected is None else rejected
        n += 1
        if rejected is not None:
            ctx.rep.refuted(rule, c, f"the check `{show(test)[:70]}` rejects the tip mask {rejected} (tips {[i + 1 for i in range(8) if rejected >> i & 1]}): "
                            "every non-empty combination of tips 1-8 is a valid selection", where=w)
        elif unknown:
            ctx.rep.inconclusive(rule, c, f"cannot evaluate `{show(test)[:70]}` over the masks 1..255", where=w)
        else:
            ctx.rep.holds(rule, c, "accepts every mask 1..255", where=w)
    ctx.rep.holds(rule, f"{f.qualname}/range-guards", f"{n} range check(s) on the folded mask", where=f.where())


def _subst_value(x: ast.AST, var: str, value: int) -> ast.AST:
    class T(ast.NodeTransformer):
        def visit_Name(self, n):
            if n.id == var:
                return ast.Constant(value=value)
            return n

    import copy

    return T().visit(copy.deepcopy(x))


def aggregate_records(ctx) -> None:
    """The iterable branch of prepare_aspirate_dispense_parameters."""
    rule = "C10.aggregate"
    f, fv, TIP, lp, it = _tip_host(ctx, rule)
    if lp is None:
        ctx.rep.inconclusive(rule, f.qualname, "loop over the tip collection not found")
        return
    ctx.rep.touch(f)
    w = f.where(lp.ast)
    tr = seq_transformers(it)
    phi_args = it.args if is_sym(it, "phi") else [it]
    for a in phi_args:
        tr += seq_transformers(a)
    tr = [t for t in tr if t != "int_to_tip"]  # the scalar-int arm of the phi (not iterable anyway)
    ctx.rep.check(not tr, rule, f"{f.qualname}/iterate-raw", "every given element is converted before any de-duplication",
                  f"the collection is passed through {sorted(set(tr))} before its elements are converted: a number and a Tip member that are equal as integers but name different tips (4 vs Tip.T3) collapse", where=w)
    # under isinstance(tip, Iterable)
    guarded = any(isinstance(r, ast.Call) and call_fname(r) == "isinstance" and pol and "Iterable" in show(r) for r, pol, raw in fv.rfacts_at(lp.id))
    ctx.rep.check(guarded, rule, f"{f.qualname}/iterable-branch", "collections are handled in the Iterable branch", "the collection loop is not under isinstance(tip, Iterable)", where=w)
    body = fv.cfg.loop_body[lp.id]
    apps = [cs for cs in fv.calls() if cs.node in body and isinstance(cs.call.func, ast.Attribute) and cs.call.func.attr == "append"]
    lists = {cs.call.func.value.id for cs in apps if isinstance(cs.call.func.value, ast.Name)}
    if len(lists) != 1:
        ctx.rep.inconclusive(rule, f.qualname + "/members", f"expected the converted members to be collected in one list, found {sorted(lists)}")
        return
    L = lists.pop()
    loopid = f"loop@{lp.id}"
    for cs in apps:
        a = fv.res.resolve(cs.call.args[0], cs.node)
        facts0 = [(r, pol) for r, pol, raw in fv.rfacts_at(cs.node)]
        # the appended value may be a temporary that was bound on several paths (a converted element on one, the element
        # itself on another): every alternative is judged under its own conditions
        alts = [([], a)]
        if is_sym(a, "phi") or not (isinstance(a, ast.Call) or elem_parts(a) is not None):
            alts = [(list(conds), val) for conds, val in fv.alternatives(cs.call.args[0], cs.node)] or alts
        ok = True
        for conds, a in alts:
            conv = isinstance(a, ast.Call) and call_fname(a) == "int_to_tip" and a.args and elem_parts(a.args[0]) is not None and elem_parts(a.args[0])[0] == loopid
            plain = elem_parts(a) is not None and elem_parts(a)[0] == loopid
            facts = facts0 + [(r, pol) for r, pol in conds]
            is_tip = any(isinstance(r, ast.Call) and call_fname(r) == "isinstance" and pol and len(r.args) == 2 and is_name(r.args[1], "Tip") for r, pol in facts)
            not_tip = any(isinstance(r, ast.Call) and call_fname(r) == "isinstance" and not pol and len(r.args) == 2 and is_name(r.args[1], "Tip") for r, pol in facts)
            is_int = any(isinstance(r, ast.Call) and call_fname(r) == "isinstance" and pol and len(r.args) == 2 and is_name(r.args[1], "int") for r, pol in facts)
            ok = ok and ((conv and is_int and not_tip) or (plain and is_tip))
        ctx.rep.check(ok, rule, f"{f.qualname}/member[{show(cs.call.args[0])[:30]}]", "numbers are converted with int_to_tip, Tip members are taken as they are",
                      f"`{stmt_key(cs.call)[:60]}`: a collection element enters the mask without the number->Tip conversion (or a Tip member is converted again)", where=f.where(cs.call))
    # the fold
    folds = [n for n in fv.cfg.nodes if n.kind == "stmt" and isinstance(n.ast, (ast.Assign, ast.Return)) and n.ast.value is not None and any(is_name(s, L) for s in ast.walk(n.ast.value)) and (
        (isinstance(n.ast, ast.Assign) and isinstance(n.ast.targets[0], ast.Name) and n.ast.targets[0].id != L) or isinstance(n.ast, ast.Return))]
    # plain copies of the list (`result = tips`, the return value of an expanded helper) are the list
    aliases = {L}
    for _round in range(4):
        copies = [n for n in folds if isinstance(n.ast, ast.Assign) and isinstance(n.ast.value, ast.Name) and n.ast.value.id in aliases and isinstance(n.ast.targets[0], ast.Name)]
        if not copies:
            break
        for n in copies:
            aliases.add(n.ast.targets[0].id)
        folds = [n for n in fv.cfg.nodes if n.kind == "stmt" and isinstance(n.ast, (ast.Assign, ast.Return)) and n.ast.value is not None and any(isinstance(s, ast.Name) and s.id in aliases for s in ast.walk(n.ast.value))
                 and ((isinstance(n.ast, ast.Assign) and isinstance(n.ast.targets[0], ast.Name) and n.ast.targets[0].id not in aliases) or isinstance(n.ast, ast.Return))]
    if len(aliases) > 1 and len(folds) == 1:
        L = next(s.id for s in ast.walk(folds[0].ast.value) if isinstance(s, ast.Name) and s.id in aliases)
    if len(folds) != 1:
        ctx.rep.inconclusive(rule, f.qualname + "/fold", f"expected one fold of `{L}` into the mask, found {len(folds)}")
        return
    kind = fold_kind(folds[0].ast.value, L)
    fv_ = folds[0].ast.value
    if kind == "unknown" and isinstance(fv_, ast.Call) and call_fname(fv_) in ("set", "frozenset") and len(fv_.args) == 1 and is_name(fv_.args[0], L) and isinstance(folds[0].ast, ast.Assign):
        # unique = set(tips); mask = sum(unique)
        U = folds[0].ast.targets[0].id
        nxt = [n for n in fv.cfg.nodes if n.kind == "stmt" and isinstance(n.ast, (ast.Assign, ast.Return)) and n.ast.value is not None and any(is_name(s_, U) for s_ in ast.walk(n.ast.value)) and n.id != folds[0].id]
        if len(nxt) == 1 and isinstance(nxt[0].ast.value, ast.Call) and call_fname(nxt[0].ast.value) == "sum" and is_name(nxt[0].ast.value.args[0], U) and (
                len(nxt[0].ast.value.args) == 1 or (len(nxt[0].ast.value.args) == 2 and isinstance(nxt[0].ast.value.args[1], ast.Constant) and nxt[0].ast.value.args[1].value == 0
                                                    and not isinstance(nxt[0].ast.value.args[1].value, bool))):
            kind = "sum-set"
    ctx.rep.check(kind in ("sum-set", "or"), rule, f"{f.qualname}/fold", f"mask = {kind} of the members (idempotent on repeats)",
                  f"the mask is `{show(folds[0].ast.value)}`: a plain sum counts a repeated tip twice (tips [1, 1] give the mask of tip 2)" if kind == "sum" else f"unrecognised fold `{show(folds[0].ast.value)}`", where=f.where(folds[0].ast))
    ctx.rep.check(lp.id in fv.cfg.completed_loops_at(folds[0].id), rule, f"{f.qualname}/fold-after-loop", "the fold runs after all members were converted", "the fold is not placed after the conversion loop", where=f.where(folds[0].ast))
    # else-branch of the element type dispatch raises
    rej = any(n.id in body and not pol and raise_class(fv, r)[0] == "ValueError" for n, test, pol, r in fv.raising_guards())
    if not rej:
        # guard-clause form: a ValueError raised inside the loop where `isinstance(<element>, Tip)` is known to be false
        for rn_ in (fv.cfg.nodes[i] for i in body):
            if rn_.kind == "stmt" and isinstance(rn_.ast, ast.Raise) and raise_class(fv, rn_.ast)[0] == "ValueError":
                for r_, pol_, _b in fv.atoms_at(rn_.id, within=body):
                    if isinstance(r_, ast.Call) and call_fname(r_) == "isinstance" and not pol_ and len(r_.args) == 2 and any(is_name(x, "Tip") for x in ast.walk(r_.args[1])):
                        rej = True
    ctx.rep.check(rej, "C10.type-guard", f"{f.qualname}/element-type", "elements that are neither int nor Tip raise ValueError", "a collection element that is neither an int nor a Tip is not rejected with ValueError", where=w)
    # scalar int conversion
    conv_scalar = any(n.kind == "stmt" and isinstance(n.ast, (ast.Assign, ast.Return)) and n.ast.value is not None and isinstance(n.ast.value, ast.Call) and call_fname(n.ast.value) == "int_to_tip"
                      and n.ast.value.args and isinstance(n.ast.value.args[0], ast.Name) and lp.id not in fv.cfg.enclosing_loops(n.id)
                      and is_name(strip_norm(fv.res.resolve(n.ast.value.args[0], n.id)) if not is_sym(fv.res.resolve(n.ast.value.args[0], n.id), "phi") else ast.Name(id=TIP, ctx=ast.Load()), TIP)
                      for n in fv.cfg.nodes)
    ctx.rep.check(conv_scalar, rule, f"{f.qualname}/scalar", "a single tip number is converted with int_to_tip", "a single tip number is not converted with int_to_tip", where=f.where())
    # neither Tip nor iterable nor int -> ValueError
    other = False
    for n, test, pol, r in fv.raising_guards():
        rt = fv.res.resolve(test, n.id)
        if raise_class(fv, r)[0] == "ValueError" and isinstance(rt, ast.Call) and call_fname(rt) == "isinstance" and not pol and len(rt.args) == 2 and is_name(rt.args[1], "Tip"):
            other = True
        if raise_class(fv, r)[0] == "ValueError" and isinstance(rt, ast.UnaryOp) and isinstance(rt.operand, ast.Call) and call_fname(rt.operand) == "isinstance" and pol and is_name(rt.operand.args[1], "Tip"):
            other = True
    if not other:
        # the same rejection spelled with early returns: a ValueError raised where the tip is known to be neither a Tip nor an Iterable
        for n, test, pol, r in fv.raising_guards():
            if raise_class(fv, r)[0] != "ValueError":
                continue
            facts = [(a_, p_) for a_, p_, _b in fv.atoms_at(fv.node_of(r))]
            def neg_inst(cls_name):
                return any(isinstance(a_, ast.Call) and call_fname(a_) == "isinstance" and not p_ and len(a_.args) == 2 and cls_name in show(a_.args[1]) for a_, p_ in facts)
            if neg_inst("Tip") and neg_inst("Iterable") and lp.id not in fv.cfg.enclosing_loops(fv.node_of(r)):
                other = True
    ctx.rep.check(other, "C10.type-guard", f"{f.qualname}/scalar-type", "any other tip value raises ValueError", "a tip that is neither int, Tip nor a collection is not rejected", where=f.where())


def fold_kind(v: ast.AST, L: Optional[str] = None) -> str:
    """'sum-set' | 'or' | 'sum' | 'unknown' for an expression folding a tip collection into one number."""
    if isinstance(v, ast.Call) and call_fname(v) == "sum" and v.args:
        a = v.args[0]
        if isinstance(a, ast.Call) and call_fname(a) in ("set", "frozenset"):
            return "sum-set"
        if isinstance(a, (ast.SetComp,)):
            return "sum-set"
        if is_sym(a, "comp") and isinstance(a.args[0], ast.Constant) and a.args[0].value == "SetComp":
            return "sum-set"
        return "sum"
    while isinstance(v, ast.Call) and call_fname(v) == "int" and len(v.args) == 1 and not v.keywords:
        v = v.args[0]
    # numpy reductions:  numpy.bitwise_or.reduce(tips[, dtype=T])   numpy.packbits(numpy.isin([1, 2, .. 128], tips)[, bitorder=..])[0]
    if isinstance(v, ast.Call) and isinstance(v.func, ast.Attribute) and v.func.attr == "reduce" and isinstance(v.func.value, ast.Attribute) and v.func.value.attr in ("bitwise_or", "add") and v.args:
        dt = next((k.value for k in v.keywords if k.arg == "dtype"), None)
        if dt is not None:
            name_ = show(dt).split(".")[-1]
            name_ = NUMPY_DTYPE_ALIASES.get(name_, name_)
            if name_ in ("int8", "bool_", "bool", "byte"):
                return "narrow-dtype:" + name_
            if name_ not in ("int", "int16", "int32", "int64", "uint8", "uint16", "uint32", "uint64", "intp", "int_", "ubyte", "short", "longlong", "object"):
                return "unknown"
        return "or" if v.func.value.attr == "bitwise_or" else "sum"
    if isinstance(v, ast.Subscript) and isinstance(v.slice, ast.Constant) and v.slice.value == 0 and isinstance(v.value, ast.Call) and call_fname(v.value) == "packbits" and v.value.args:
        inner = v.value.args[0]
        if isinstance(inner, ast.Call) and call_fname(inner) == "isin" and len(inner.args) == 2 and isinstance(inner.args[0], (ast.List, ast.Tuple)) \
                and [getattr(e, "value", None) for e in inner.args[0].elts] == [1, 2, 4, 8, 16, 32, 64, 128]:
            order = next((k.value for k in v.value.keywords if k.arg == "bitorder"), None)
            if isinstance(order, ast.Constant) and order.value == "little":
                return "or"
            if order is None or (isinstance(order, ast.Constant) and order.value == "big"):
                return "bit-reversed"
    if isinstance(v, ast.Call) and call_fname(v) == "reduce" and v.args:
        op = show(v.args[0])
        return "or" if "or_" in op or "|" in op else ("sum" if "add" in op or "+" in op else "unknown")
    return "unknown"


NUMPY_DTYPE_ALIASES: Dict[str, str] = {}


def _mask_fold(ctx, fv, f, name: str, at: int, depth: int = 0) -> Tuple[str, Optional[ast.AST]]:
    """How is local `name` (the mask) computed?  ('or'|'sum-set'|'sum'|'unknown', iterated sequence term)"""
    defs = sorted(fv.cfg.reaching()[at].get(name, ()))
    kinds = []
    seq = None
    for d in defs:
        n = fv.cfg.nodes[d]
        if n.kind == "stmt" and isinstance(n.ast, ast.AugAssign):
            loops = [h for h in fv.cfg.enclosing_loops(d) if fv.cfg.nodes[h].kind == "for"]
            if not loops:
                kinds.append("unknown")
                continue
            seq = fv.res.resolve(fv.cfg.nodes[loops[-1]].ast.iter, loops[-1])
            if isinstance(n.ast.op, ast.BitOr):
                kinds.append("or")
            elif isinstance(n.ast.op, ast.Add):
                kinds.append("sum")
            else:
                kinds.append("unknown")
        elif n.kind == "stmt" and isinstance(n.ast, ast.Assign):
            v = n.ast.value
            if isinstance(v, ast.Constant) and (v.value == 0 or v.value is None):
                continue
            if isinstance(v, ast.Constant) and isinstance(v.value, (int, float)) and not isinstance(v.value, bool):
                kinds.append("bad-init")
                continue
            if isinstance(v, ast.Name) and depth < 4:
                k, sq = _mask_fold(ctx, fv, f, v.id, d, depth + 1)
                seq = sq if sq is not None else seq
                kinds.append(k)
                continue
            import copy as _copy

            v = _copy.deepcopy(v)
            for x_ in ast.walk(v):
                # a dtype held in a module-level constant
                if isinstance(x_, ast.keyword) and x_.arg == "dtype" and isinstance(x_.value, ast.Name) and x_.value.id in f.module.assigns:
                    x_.value = f.module.assigns[x_.value.id]
            k = fold_kind(v)
            if k == "unknown":
                try:
                    k = fold_kind(fv.res.resolve(v, d))  # parts held in locals
                except Exception:
                    k = "unknown"
            if k in ("or", "sum") and seq is None and isinstance(v, ast.Call):
                inner_ = v
                while isinstance(inner_, ast.Call) and call_fname(inner_) == "int" and len(inner_.args) == 1:
                    inner_ = inner_.args[0]
                if isinstance(inner_, ast.Call) and inner_.args:
                    seq = fv.res.resolve(inner_.args[0], d)
            if k == "unknown" and isinstance(v, ast.Call) and depth < 2:
                cal = ctx.prog.resolve_call(f, v, fv.env)
                if cal.kind == "func":
                    k, _ = _helper_fold(ctx, cal.func, depth + 1)
                    seq = fv.res.resolve(v.args[0], d) if v.args else seq
            kinds.append(k)
        else:
            kinds.append("unknown")
    if not kinds:
        return "unknown", seq
    if "bad-init" in kinds:
        return "bad-init", seq
    for k in kinds:
        if k.startswith("narrow-dtype:") or k == "bit-reversed":
            return k, seq
    if all(k in ("or", "sum-set") for k in kinds):
        return "or", seq
    if "sum" in kinds:
        return "sum", seq
    return "unknown", seq


def _helper_fold(ctx, g, depth: int) -> Tuple[str, Optional[ast.AST]]:
    gv = ctx.fv(g)
    rets = [n for n in gv.cfg.nodes if n.kind == "stmt" and isinstance(n.ast, ast.Return) and n.ast.value is not None]
    kinds = []
    for rn in rets:
        v = rn.ast.value
        k = fold_kind(gv.res.resolve(v, rn.id))
        if k == "unknown" and isinstance(v, ast.Name):
            k, _ = _mask_fold(ctx, gv, g, v.id, rn.id, depth)
        kinds.append(k)
    if kinds and all(k in ("or", "sum-set") for k in kinds):
        return "or", None
    if "sum" in kinds:
        return "sum", None
    return "unknown", None


def _has_strict_order_guard(ctx, validator, seq_param: str) -> bool:
    """validator raises when consecutive elements of the converted `seq_param` are not strictly ascending."""
    fv = ctx.fv(validator)
    for n, test, pol, r in fv.raising_guards():
        if not pol:
            continue
        t = test
        if isinstance(t, ast.Call) and call_fname(t) == "any" and t.args and isinstance(t.args[0], (ast.GeneratorExp, ast.ListComp)):
            comp = t.args[0]
            elt = comp.elt
            it = comp.generators[0].iter
            if isinstance(elt, ast.Compare) and len(elt.ops) == 1 and isinstance(elt.ops[0], (ast.GtE,)) and isinstance(it, ast.Call) and call_fname(it) == "zip" and len(it.args) == 2:
                a, b = it.args
                def base_of(x):
                    return x.value if isinstance(x, ast.Subscript) else None
                if base_of(a) is not None and base_of(b) is not None and key(base_of(a)) == key(base_of(b)):
                    sl_a, sl_b = a.slice, b.slice
                    ok_slices = isinstance(sl_a, ast.Slice) and isinstance(sl_b, ast.Slice) and sl_a.lower is None and isinstance(sl_b.lower, ast.Constant) and sl_b.lower.value == 1
                    tgt = comp.generators[0].target
                    ok_cmp = isinstance(tgt, ast.Tuple) and len(tgt.elts) == 2 and is_name(elt.left, tgt.elts[0].id) and is_name(elt.comparators[0], tgt.elts[1].id)
                    bname = base_of(a).id if isinstance(base_of(a), ast.Name) else None
                    fed = bname == seq_param
                    for cs in fv.calls():
                        if isinstance(cs.call.func, ast.Attribute) and cs.call.func.attr == "append" and is_name(cs.call.func.value, bname):
                            loops = [h for h in fv.cfg.enclosing_loops(cs.node) if fv.cfg.nodes[h].kind == "for"]
                            if loops and is_name(strip_norm(fv.res.resolve(fv.cfg.nodes[loops[-1]].ast.iter, loops[-1])), seq_param):
                                fed = True
                    if ok_slices and ok_cmp and fed:
                        return True
    return False


def evo_member_conversion(ctx) -> None:
    """EVO validator: numbers 1-8 are converted with int_to_tip, Tip members are taken as they are (a Tip member is an int
    too - converting it again turns Tip.T3 = 4 into tip 4)."""
    rule = "C10.aggregate"
    v = ctx.prog.require_func("prepare_evo_aspirate_dispense_parameters", rule)
    fv = ctx.fv(v)
    rn_ = fv.return_nodes()
    rets = [fv.def_expr(n.ast.value, n.id)[0] for n in rn_]
    rets = [r for r in rets if isinstance(r, ast.Tuple) and len(r.elts) == 5]
    tips_var = getattr(fv.alias_root(rets[0].elts[4], rn_[0].id), "id", None) if rets else None
    apps = [cs for cs in fv.calls() if isinstance(cs.call.func, ast.Attribute) and cs.call.func.attr == "append" and is_name(cs.call.func.value, tips_var) and len(cs.call.args) == 1]
    if tips_var is None or len(apps) != 1:
        ctx.rep.inconclusive(rule, f"{v.qualname}/member-conversion", "conversion loop of the tips not found", where=v.where())
        return
    cs = apps[0]
    n_conv = 0
    for conds, val in fv.alternatives(cs.call.args[0], cs.node):
        if not (isinstance(val, ast.Call) and call_fname(val) == "int_to_tip"):
            continue
        n_conv += 1
        inst = {}
        for r, pol in conds:
            if isinstance(r, ast.Call) and call_fname(r) == "isinstance" and len(r.args) == 2 and isinstance(r.args[1], ast.Name):
                inst[r.args[1].id] = pol
        ok = inst.get("int") is True and inst.get("Tip") is False
        ctx.rep.check(ok, rule, f"{v.qualname}/member-conversion", "int_to_tip is applied exactly to ints that are not Tip members",
                      f"int_to_tip is applied under {inst or 'an undecomposable condition'}; expected isinstance(tip, int) and not isinstance(tip, Tip): a Tip member (an int as well) would be converted a second time "
                      "(Tip.T3 = 4 becomes tip 4), or plain numbers would not be converted", where=v.where(cs.call))
    if n_conv == 0:
        ctx.rep.refuted(rule, f"{v.qualname}/member-conversion", "tip numbers are never converted with int_to_tip", where=v.where(cs.call))


def aggregate_evo(ctx) -> None:
    rule = "C10.aggregate"
    n_sites = 0
    for name, validator_name in (("evo_aspirate", "prepare_evo_aspirate_dispense_parameters"), ("evo_dispense", "prepare_evo_aspirate_dispense_parameters"), ("evo_wash", "prepare_evo_wash_parameters")):
        f = ctx.prog.func(f"robotools.evotools.commands:{name}")
        if f is None:
            ctx.rep.inconclusive(rule, f"commands.{name}", "formatter not found")
            continue
        fv = ctx.fv(f)
        rets = fv.template_returns()
        if len(rets) != 1:
            ctx.rep.inconclusive(rule, f"{f.qualname}/template", "command template not found")
            continue
        parts = template_parts(rets[0].value)
        holes = [p for p in parts if isinstance(p, Hole)]
        first = holes[0].expr
        n_sites += 1
        w = f.where(rets[0].ast)
        if isinstance(first, ast.Name):
            kind, seq = _mask_fold(ctx, fv, f, first.id, rets[0].id)
        else:
            t = fv.res.resolve(first, rets[0].id)
            kind = fold_kind(t)
            seq = None
            if kind == "unknown" and isinstance(first, ast.Call):
                cal = ctx.prog.resolve_call(f, first, fv.env)
                if cal.kind == "func":
                    kind, _ = _helper_fold(ctx, cal.func, 1)
        if kind == "or":
            ctx.rep.holds(rule, f"{f.qualname}/mask", "mask is an OR / sum over the set of the tips", where=w)
        elif kind == "sum":
            validator = ctx.prog.func(validator_name)
            distinct = validator is not None and _has_strict_order_guard(ctx, validator, "tips")
            ctx.rep.check(distinct, rule, f"{f.qualname}/mask", "plain sum over tips that the validator establishes strictly ascending (duplicate-free)",
                          f"the mask of {name} is a plain sum over the given tips and its validator does not establish that they are distinct: a repeated tip turns into a different tip (tips=[1, 1] -> mask 2)", where=w)
        elif kind == "bad-init":
            ctx.rep.refuted(rule, f"{f.qualname}/mask", f"the tip mask `{show(first)[:40]}` does not start from 0: a tip that was not selected is part of every mask", where=w)
        elif kind.startswith("narrow-dtype:"):
            ctx.rep.refuted(rule, f"{f.qualname}/mask", f"the tip mask of {name} is folded in a numpy `{kind.split(':')[1]}`: the bit of tip 8 (128) does not fit and wraps - "
                            "tips=[8] gives the mask -128", where=w)
        elif kind == "bit-reversed":
            ctx.rep.refuted(rule, f"{f.qualname}/mask", f"the tip mask of {name} is packed with numpy.packbits in its default bit order ('big'): the first entry of the table lands in the "
                            "most significant bit - tips=[1] gives the mask 128", where=w)
        else:
            ctx.rep.inconclusive(rule, f"{f.qualname}/mask", f"cannot classify how the tip mask `{show(first)[:40]}` is folded", where=w)
        # the folded sequence is the validator's tips output
        if seq is not None:
            # [tip.value for tip in <tips>]: the values of the same tips, element by element
            if is_sym(seq, "comp") and len(seq.args) == 3 and isinstance(seq.args[0], ast.Constant) and seq.args[0].value in ("ListComp", "GeneratorExp") and is_sym(seq.args[2], "gen") \
                    and len(seq.args[2].args) == 1 and isinstance(seq.args[1], ast.Attribute) and seq.args[1].attr == "value" and is_sym(seq.args[1].value, "elem"):
                seq = seq.args[2].args[0]
            ok_seq = is_sym(seq, "unpack") or (isinstance(seq, ast.Name))
            src = seq.args[0] if is_sym(seq, "unpack") else None
            ok_seq = ok_seq and (src is None or (isinstance(src, ast.Call) and call_fname(src) == validator_name))
            ctx.rep.check(ok_seq, rule, f"{f.qualname}/mask-source", "the mask is folded over the validated tips", f"the mask is folded over `{show(seq)[:60]}`, not over the validator's tips", where=w)
    ctx.rep.floor(rule, "EVO command mask sites", n_sites, 3)


# ---------------------------------------------------------------------------------- Tip.Any
def any_rules(ctx) -> None:
    rule = "C10.any"
    f = ctx.prog.require_func("prepare_aspirate_dispense_parameters", rule)
    fv = ctx.fv(f)
    # inside a collection: raise ValueError (in the function that converts the collection: this one or a new helper)
    hf, hv_, _tn, hlp, _it = _tip_host(ctx, rule)
    inside = False
    for n, test, pol, r in hv_.raising_guards():
        if not pol or raise_class(hv_, r)[0] != "ValueError" or hlp is None or hlp.id not in hv_.cfg.enclosing_loops(n.id):
            continue
        rt = hv_.res.resolve(test, n.id)
        if isinstance(rt, ast.Compare) and isinstance(rt.ops[0], (ast.Eq, ast.Is)) and elem_parts(rt.left) is not None and elem_parts(rt.left)[0] == f"loop@{hlp.id}" and _is_any(rt.comparators[0]):
            inside = True
    ctx.rep.check(inside, rule, f"{hf.qualname}/in-collection", "Tip.Any inside a collection raises ValueError", "Tip.Any (-1) inside a collection is not rejected: it contributes -1 to the mask", where=hf.where())
    # alone: "" if tip == -1 else tip
    rets = [n for n in fv.cfg.nodes if n.kind == "stmt" and isinstance(n.ast, ast.Return) and n.ast.value is not None]
    ok = False
    for rn in rets:
        val = fv.res.resolve(rn.ast.value, rn.id)
        if isinstance(val, ast.Tuple) and len(val.elts) == 9:
            t = val.elts[4]
            if isinstance(t, ast.IfExp) and isinstance(t.test, ast.Compare) and isinstance(t.test.ops[0], ast.Eq) and _is_any(t.test.comparators[0]) and isinstance(t.body, ast.Constant) and t.body.value == "" and key(t.orelse) == key(t.test.left):
                ok = True
        if not ok:
            # statement form:  if tip == -1: tip = ""   (the test is reached on every path to the return, nothing re-binds the name after it)
            raw_, at_ = fv.def_expr(rn.ast.value, rn.id)
            if isinstance(raw_, ast.Tuple) and len(raw_.elts) == 9 and isinstance(raw_.elts[4], ast.Name):
                nm = raw_.elts[4].id
                for d in sorted(fv.cfg.reaching()[at_].get(nm, ())):
                    dn = fv.cfg.nodes[d]
                    if not (dn.kind == "stmt" and isinstance(dn.ast, ast.Assign) and isinstance(dn.ast.value, ast.Constant) and dn.ast.value.value == ""):
                        continue
                    ctrl = fv.controlling(d, skip_raising=True)
                    if len(ctrl) != 1 or not ctrl[0][1]:
                        continue
                    tn = fv.cfg.nodes[ctrl[0][0]]
                    t_ = tn.ast
                    if isinstance(t_, ast.Compare) and len(t_.ops) == 1 and isinstance(t_.ops[0], ast.Eq) and is_name(t_.left, nm) and _is_any(t_.comparators[0]) and fv.cfg.dominates(tn.id, at_):
                        later = [x for x in fv.cfg.reaching()[at_].get(nm, ()) if x != d and fv.cfg.dominates(tn.id, x)]
                        ok = not later
    ctx.rep.check(ok, rule, f"{f.qualname}/alone", "a lone Tip.Any gives the empty mask field, everything else its mask", "the returned tip field is not `'' if tip == -1 else tip`", where=f.where())
    for vname in ("prepare_evo_aspirate_dispense_parameters", "prepare_evo_wash_parameters"):
        g = ctx.prog.func(vname)
        if g is None:
            ctx.rep.inconclusive(rule, vname, "validator not found")
            continue
        gv = ctx.fv(g)
        rej = False
        typ = False
        for n, test, pol, r in gv.raising_guards():
            if not pol or raise_class(gv, r)[0] != "ValueError":
                continue
            loops = [h for h in gv.cfg.enclosing_loops(n.id) if gv.cfg.nodes[h].kind == "for"]
            if not loops or gv.cfg.loop_has_break.get(loops[-1]):
                continue
            lit = gv.res.resolve(gv.cfg.nodes[loops[-1]].ast.iter, loops[-1])
            if not is_name(strip_norm(lit), "tips"):
                continue
            parts = test.values if isinstance(test, ast.BoolOp) and isinstance(test.op, ast.Or) else [test]
            for p in parts:
                if isinstance(p, ast.Compare) and isinstance(p.ops[0], (ast.Eq, ast.Is)) and _is_any(p.comparators[0]):
                    rej = True
                core = p.operand if isinstance(p, ast.UnaryOp) and isinstance(p.op, ast.Not) else None
                if core is not None and isinstance(core, ast.Call) and call_fname(core) == "isinstance":
                    typ = True
        if not rej:
            rej = _evo_rejects(ctx, g, vname, "any")
        if not typ:
            typ = _evo_rejects(ctx, g, vname, "type")
        ctx.rep.check(rej, rule, f"{g.qualname}/any", "Tip.Any is rejected for EVO script commands", f"{vname} accepts Tip.Any: it contributes -1 to the tip mask", where=g.where())
        ctx.rep.check(typ, "C10.type-guard", f"{g.qualname}/element-type", "elements that are neither int nor Tip raise ValueError", f"{vname} does not reject elements that are neither int nor Tip with ValueError", where=g.where())


def _evo_rejects(ctx, g, vname: str, what: str) -> bool:
    """The element checks of an EVO validator in a form that the structural test does not know: the validator is interpreted
    (rules/init_model.py; nothing of the repository is executed) for tip lists that hold Tip.Any / a non-int element, and
    every one of them has to end in a ValueError raised by the validator's own statements."""
    from . import init_model as IM

    try:
        members = _tip_table(ctx, "C10.any")
    except AnalysisInconclusive:
        return False
    enums = {"Tip": dict(members)}
    any_ = IM.EnumVal(members["Any"], "Tip", "Any") if "Any" in members else None
    if any_ is None:
        return False
    tip_lists = [[any_], [1, any_], [any_, 2]] if what == "any" else [[2.0], ["1"], [1, 2.5]]
    for tips in tip_lists:
        if vname == "prepare_evo_wash_parameters":
            params = dict(tips=tips, waste_location=(52, 2), cleaner_location=(52, 1), arm=0, waste_vol=3.0, waste_delay=500, cleaner_vol=4.0, cleaner_delay=500, airgap=10, airgap_speed=70,
                          retract_speed=30, fastwash=1, low_volume=0)
        else:
            params = dict(wells=["A01", "B01"][:len(tips)], labware_position=(30, 2), volume=10.0, liquid_class="Water", tips=tips, arm=0, max_volume=950)
        if not set(params) <= set(g.params):
            return False
        kind, val = IM.run_function(g, params, ctx.prog, enums)
        if kind != "raise" or val != "ValueError":
            return False
    return True


def _is_any(e: ast.AST) -> bool:
    if isinstance(e, ast.UnaryOp) and isinstance(e.op, ast.USub) and isinstance(e.operand, ast.Constant) and e.operand.value == 1:
        return True
    if isinstance(e, ast.Constant) and e.value == -1:
        return True
    return isinstance(e, ast.Attribute) and e.attr == "Any"


# ------------------------------------------------------------------------------------ slots
def slots(ctx) -> None:
    rule = "C10.slots"
    table = _tip_table(ctx, rule)
    want = sorted(v for k, v in table.items() if k != "Any")
    for name in ("evo_aspirate", "evo_dispense"):
        f = ctx.prog.func(f"robotools.evotools.commands:{name}")
        if f is None:
            ctx.rep.inconclusive(rule, name, "formatter not found")
            continue
        from .common import with_helpers

        found = []
        for v in with_helpers(ctx, ctx.fv(f)):
            for n in v.cfg.nodes:
                if n.kind == "for":
                    it, _at = v.def_expr(n.ast.iter, n.id)
                    if isinstance(it, ast.Name):
                        it = v.res.resolve(it, _at)  # a module-level constant tuple of the slot values
                    if isinstance(it, (ast.List, ast.Tuple)) and it.elts and all(isinstance(e, ast.Constant) for e in it.elts):
                        found.append((v, n, it))
                        continue
                    # a loop over (an enumeration of) Tip members: tuple(Tip)[1:], a module-level constant bound to such a sequence
                    core = n.ast.iter.args[0] if isinstance(n.ast.iter, ast.Call) and call_fname(n.ast.iter) == "enumerate" and n.ast.iter.args else n.ast.iter
                    members = None
                    if isinstance(core, ast.Name):
                        r_ = ctx.prog.resolve_name(v.f.module, core.id)
                        if isinstance(r_, tuple) and r_[0] == "value" and r_[1].assigns.get(r_[2]) is not None:
                            members = _static_seq(ctx, v.f, r_[1].assigns[r_[2]])
                    if members is None and not isinstance(core, ast.Name):
                        members = _static_seq(ctx, v.f, core)
                    if members is not None and members and all(m in table for m in members):
                        found.append((v, n, ast.List(elts=[ast.Constant(value=table[m]) for m in members], ctx=ast.Load())))
        if len(found) != 1:
            ctx.rep.inconclusive(rule, f"{f.qualname}/slot-loop", f"expected one loop over the literal slot list, found {len(found)}")
            continue
        fv, lp, slot_list = found[0]
        f = fv.f
        vals = [e.value for e in slot_list.elts]
        ctx.rep.check(vals == want, rule, f"{f.qualname}/slot-list", "slot list = ascending Tip values 1..128", f"slot list is {vals}; the i-th volume slot belongs to tip i, so it must be the ascending Tip values {want}", where=f.where(lp.ast))
        body = fv.cfg.loop_body[lp.id]
        def _texty(v):
            return isinstance(v, ast.JoinedStr) or (isinstance(v, ast.Constant) and isinstance(v.value, str))

        augs = [n for n in (fv.cfg.nodes[i] for i in body) if n.kind == "stmt" and isinstance(n.ast, ast.AugAssign) and isinstance(n.ast.op, ast.Add) and _texty(n.ast.value)]
        if not augs:
            # the slot strings collected in a list that is joined afterwards: items.append("0,") / items.append(f'"{v}",')
            augs = [n for n in (fv.cfg.nodes[i] for i in body) if n.kind == "stmt" and isinstance(n.ast, ast.Expr) and isinstance(n.ast.value, ast.Call) and isinstance(n.ast.value.func, ast.Attribute)
                    and n.ast.value.func.attr == "append" and len(n.ast.value.args) == 1 and _texty(n.ast.value.args[0])]
        tests = [n for n in (fv.cfg.nodes[i] for i in body) if n.kind == "test"]

        def _sink(a):
            return show(a.ast.target) if isinstance(a.ast, ast.AugAssign) else show(a.ast.value.func.value)

        ok = len(augs) == 2 and len(tests) == 1 and len({_sink(a) for a in augs}) == 1 and not fv.cfg.loop_has_break.get(lp.id)
        if ok:
            pols = set()
            for a in augs:
                for d, pol in fv.controlling(a.id, within=body):
                    pols.add(pol)
            ok = pols == {True, False}
        if not augs and isinstance(lp.ast.target, ast.Tuple) and len(lp.ast.target.elts) == 2 and all(isinstance(x, ast.Name) for x in lp.ast.target.elts):
            # pre-filled slot list: slots = ["0"] * N; for i, tip in enumerate(<tips in slot order>): if tip in tips: slots[i] = <volume>
            idx_name = lp.ast.target.elts[0].id
            stores = [n for n in (fv.cfg.nodes[i] for i in body) if n.kind == "stmt" and isinstance(n.ast, ast.Assign) and isinstance(n.ast.targets[0], ast.Subscript) and is_name(n.ast.targets[0].slice, idx_name)]
            ok = None
            if len(stores) == 1 and len(tests) == 1 and not fv.cfg.loop_has_break.get(lp.id) and isinstance(stores[0].ast.targets[0].value, ast.Name):
                init, _a = fv.def_expr(stores[0].ast.targets[0].value, lp.id)
                prefilled = isinstance(init, ast.BinOp) and isinstance(init.op, ast.Mult) and any(isinstance(x, ast.List) and len(x.elts) == 1 and isinstance(x.elts[0], ast.Constant) and str(x.elts[0].value) == "0" for x in (init.left, init.right))
                ctrl = fv.controlling(stores[0].id, within=body)
                ok = True if prefilled and len(ctrl) == 1 and ctrl[0][1] else None
        ctx.rep.check(ok, rule, f"{f.qualname}/one-slot-each", "exactly one slot string is appended per slot on both branches", "the slot loop does not append exactly one slot string per slot (selected -> volume, else 0)", where=f.where(lp.ast))
        # selected test: tipv in [t.value for t in tips]
        t = tests[0].ast if tests else None
        loop_names = [x.id for x in ast.walk(lp.ast.target) if isinstance(x, ast.Name)]
        ok_t = isinstance(t, ast.Compare) and isinstance(t.ops[0], ast.In) and isinstance(t.left, ast.Name) and t.left.id in loop_names[-1:]
        ctx.rep.check(bool(ok_t), rule, f"{f.qualname}/selected-test", "a slot is filled iff its tip value is among the selected tips", "slot selection is not `slot value in <values of the selected tips>`", where=f.where(lp.ast))
        # the slot string must be closed by the template: {tip_volumes}0,0,0,0 gives 12 numeric slots; selection string etc. are C13.template
