"""Finite-model evaluation of the large-volume-handling (LVH) counter of transfer().

The counter that transfer() prints into the history label has to equal  sum over all wells of max(len(steps) - 1, 0).
Its definition in the source is a handful of equations over the *lengths* of the per-well step lists (an initial
value, contributions per column group / per partition / per executed step, or one closed form after the loops).
Those equations are read off the CFG by their position relative to the three loops of the transfer nest; their
right-hand sides are then evaluated by the small expression evaluator below (len / sum / max / min / map /
comprehensions / arithmetic only - nothing of the repository is imported or executed) on every scenario of a finite
table of length vectors: 1-2 column groups x 1-2 wells per group x step lists [], [0.0], [v], [v, v], [v, v, v].
A scenario on which the equations disagree with the required sum is the witness of a REFUTED verdict; agreement on
the whole table is reported as HOLDS *for the table* (a bounded argument, stated as such in the evidence); any
construct outside the evaluator's fragment makes the verdict INCONCLUSIVE.
"""
from __future__ import annotations

import ast
import itertools
from typing import Any, Dict, List, Optional, Tuple

from ..defuse import show
from .common import call_fname, is_name, stmt_key


class Unsupported(Exception):
    pass


WELL_LISTS = ([], [0.0], [5.0], [5.0, 5.0], [5.0, 5.0, 5.0])


def scenarios():
    groups1 = [list(c) for n in (1, 2) for c in itertools.product(range(len(WELL_LISTS)), repeat=n)]
    for g in groups1:
        yield [g]
    for g1 in groups1:
        for g2 in groups1:
            yield [g1, g2]


class Vec(list):
    """stand-in for a 1-D numpy array of volumes: arithmetic and comparisons are element-wise"""

    def _zip(self, other, fn):
        if isinstance(other, list):
            if len(other) != len(self):
                raise Unsupported("shape mismatch")
            return Vec(fn(a, b) for a, b in zip(self, other))
        return Vec(fn(a, other) for a in self)


def _arith(op, a, b):
    import operator

    table = {ast.Add: operator.add, ast.Sub: operator.sub, ast.Mult: operator.mul, ast.FloorDiv: operator.floordiv, ast.Div: operator.truediv, ast.Mod: operator.mod}
    fn = table.get(type(op))
    if fn is None:
        raise Unsupported(type(op).__name__)
    if isinstance(a, Vec):
        return a._zip(b, fn)
    if isinstance(b, Vec):
        return b._zip(a, lambda y, x: fn(x, y))
    return fn(a, b)


def _elementwise(fn):
    def run(x, *rest):
        if isinstance(x, Vec):
            return Vec(fn(v, *rest) for v in x)
        return fn(x, *rest)

    return run


import math as _math

NUMPY_FUNCS = {"ceil": _elementwise(_math.ceil), "floor": _elementwise(_math.floor), "maximum": lambda a, b: _arith_fn(max, a, b), "minimum": lambda a, b: _arith_fn(min, a, b),
               "count_nonzero": lambda x: sum(1 for v in x if v), "array": lambda x: Vec(x), "asarray": lambda x: Vec(x), "clip": None}


def _arith_fn(fn, a, b):
    if isinstance(a, Vec):
        return a._zip(b, fn)
    if isinstance(b, Vec):
        return b._zip(a, lambda y, x: fn(x, y))
    return fn(a, b)


SAFE_FUNCS = {"len": len, "sum": sum, "max": max, "min": min, "abs": abs, "int": int, "float": float, "bool": bool, "list": list, "tuple": tuple,
              "sorted": sorted, "range": range, "zip": zip, "enumerate": enumerate, "any": any, "all": all, "round": round}


class Ev:
    def __init__(self, fv, env: Dict[str, Any]):
        self.fv, self.env = fv, env

    def name(self, n: ast.Name, at: int, local: Dict[str, Any]):
        if n.id in local:
            return local[n.id]
        if n.id in self.env:
            return self.env[n.id]
        # a temporary with a single definition: evaluate the defining expression in the same scenario
        defs = self.fv.cfg.reaching()[at].get(n.id, frozenset())
        if len(defs) == 1:
            d = next(iter(defs))
            dn = self.fv.cfg.nodes[d]
            if dn.kind == "stmt" and isinstance(dn.ast, ast.Assign) and len(dn.ast.targets) == 1 and isinstance(dn.ast.targets[0], ast.Name):
                mine, theirs = self.fv.cfg.enclosing_loops(at), self.fv.cfg.enclosing_loops(d)
                if theirs == mine[: len(theirs)]:
                    return self.ev(dn.ast.value, d, local)
        raise Unsupported(f"name `{n.id}`")

    def ev(self, e: ast.AST, at: int, local: Optional[Dict[str, Any]] = None):
        local = local or {}
        if isinstance(e, ast.Constant):
            return e.value
        if isinstance(e, ast.Name):
            return self.name(e, at, local)
        if isinstance(e, (ast.List, ast.Tuple)):
            return [self.ev(x, at, local) for x in e.elts]
        if isinstance(e, ast.Attribute) and isinstance(e.value, ast.Name) and f"{e.value.id}.{e.attr}" in self.env:
            return self.env[f"{e.value.id}.{e.attr}"]
        if isinstance(e, ast.BinOp):
            a, b = self.ev(e.left, at, local), self.ev(e.right, at, local)
            try:
                return _arith(e.op, a, b)
            except (ZeroDivisionError, TypeError) as ex:
                raise Unsupported(str(ex))
            raise Unsupported(type(e.op).__name__)
        if isinstance(e, ast.UnaryOp):
            v = self.ev(e.operand, at, local)
            if isinstance(e.op, ast.USub):
                return -v
            if isinstance(e.op, ast.Not):
                return not v
            raise Unsupported(type(e.op).__name__)
        if isinstance(e, ast.BoolOp):
            vals = [self.ev(v, at, local) for v in e.values]
            return all(vals) if isinstance(e.op, ast.And) else any(vals)
        if isinstance(e, ast.Compare):
            left = self.ev(e.left, at, local)
            for op, right_e in zip(e.ops, e.comparators):
                right = self.ev(right_e, at, local)
                table = {ast.Lt: lambda a, b: a < b, ast.LtE: lambda a, b: a <= b, ast.Gt: lambda a, b: a > b, ast.GtE: lambda a, b: a >= b,
                         ast.Eq: lambda a, b: a == b, ast.NotEq: lambda a, b: a != b}
                fn = table.get(type(op))
                if fn is None:
                    raise Unsupported(type(op).__name__)
                if isinstance(left, Vec) or isinstance(right, Vec):
                    if len(e.ops) != 1:
                        raise Unsupported("chained array comparison")
                    return _arith_fn(fn, left, right)
                if not fn(left, right):
                    return False
                left = right
            return True
        if isinstance(e, ast.IfExp):
            return self.ev(e.body, at, local) if self.ev(e.test, at, local) else self.ev(e.orelse, at, local)
        if isinstance(e, ast.Subscript):
            base = self.ev(e.value, at, local)
            if isinstance(e.slice, ast.Slice):
                lo = self.ev(e.slice.lower, at, local) if e.slice.lower is not None else None
                hi = self.ev(e.slice.upper, at, local) if e.slice.upper is not None else None
                return base[lo:hi]
            try:
                return base[self.ev(e.slice, at, local)]
            except (IndexError, TypeError, KeyError) as ex:
                raise Unsupported(str(ex))
        if isinstance(e, (ast.ListComp, ast.GeneratorExp, ast.SetComp)):
            out: List[Any] = []

            def rec(i: int, loc: Dict[str, Any]):
                if i == len(e.generators):
                    out.append(self.ev(e.elt, at, loc))
                    return
                g = e.generators[i]
                for item in self.ev(g.iter, at, loc):
                    loc2 = dict(loc)
                    self.bind(g.target, item, loc2)
                    if all(self.ev(c, at, loc2) for c in g.ifs):
                        rec(i + 1, loc2)

            rec(0, dict(local))
            return out
        if isinstance(e, ast.Call):
            fn = call_fname(e)
            if e.keywords and not (fn in ("max", "min", "sum") and all(k.arg in ("default", "start") for k in e.keywords)):
                raise Unsupported(f"keywords in {fn}")
            if fn == "map" and len(e.args) == 2 and isinstance(e.args[0], ast.Name) and e.args[0].id in SAFE_FUNCS:
                return [SAFE_FUNCS[e.args[0].id](x) for x in self.ev(e.args[1], at, local)]
            # only builtins called by their bare name, or numpy's aggregate aliases
            plain = isinstance(e.func, ast.Name) or (isinstance(e.func, ast.Attribute) and isinstance(e.func.value, ast.Name) and e.func.value.id in ("np", "numpy", "math") and fn in ("sum", "max", "min", "abs"))
            numpyish = isinstance(e.func, ast.Attribute) and isinstance(e.func.value, ast.Name) and e.func.value.id in ("np", "numpy", "math")
            if numpyish and NUMPY_FUNCS.get(fn) is not None and not e.keywords:
                try:
                    return NUMPY_FUNCS[fn](*[self.ev(a, at, local) for a in e.args])
                except (ValueError, TypeError) as ex:
                    raise Unsupported(f"{fn}: {ex}")
            if fn in SAFE_FUNCS and plain:
                args = [self.ev(a, at, local) for a in e.args]
                kw = {k.arg: self.ev(k.value, at, local) for k in e.keywords}
                try:
                    r = SAFE_FUNCS[fn](*args, **kw)
                except (ValueError, TypeError) as ex:
                    raise Unsupported(f"{fn}: {ex}")
                return list(r) if fn in ("zip", "enumerate", "range") else r
            raise Unsupported(f"call `{show(e.func)[:30]}`")
        raise Unsupported(type(e).__name__)

    @staticmethod
    def bind(target: ast.AST, value: Any, local: Dict[str, Any]) -> None:
        if isinstance(target, ast.Name):
            local[target.id] = value
        elif isinstance(target, (ast.Tuple, ast.List)):
            vals = list(value)
            if len(vals) != len(target.elts):
                raise Unsupported("unpacking")
            for t, v in zip(target.elts, vals):
                Ev.bind(t, v, local)
        else:
            raise Unsupported("loop target")


def _template_names(node: ast.AST) -> set:
    """Names interpolated into a string template that mentions LVH (f-string or str.format)."""
    names = set()
    for sub in ast.walk(node):
        if isinstance(sub, ast.JoinedStr) and any(isinstance(p, ast.Constant) and "LVH" in str(p.value) for p in sub.values):
            names |= {p.value.id for p in sub.values if isinstance(p, ast.FormattedValue) and isinstance(p.value, ast.Name)}
        if isinstance(sub, ast.Call) and isinstance(sub.func, ast.Attribute) and sub.func.attr == "format" and isinstance(sub.func.value, ast.Constant) \
                and "LVH" in str(sub.func.value.value):
            names |= {a.id for a in sub.args if isinstance(a, ast.Name)} | {k.value.id for k in sub.keywords if isinstance(k.value, ast.Name)}
        if isinstance(sub, ast.BinOp) and isinstance(sub.op, ast.Mod) and isinstance(sub.left, ast.Constant) and "LVH" in str(sub.left.value):
            names |= {x.id for x in ast.walk(sub.right) if isinstance(x, ast.Name)}
    return names


def counter_name(fv, f) -> Optional[str]:
    """The variable printed next to 'LVH' in the label template (possibly inside a new helper function)."""
    names = set()
    for n in fv.cfg.nodes:
        if n.kind == "stmt":
            for nm in _template_names(n.ast) - {"label"}:
                # a temporary that carries the label text itself (label__h1 = label after a helper was expanded) is not the counter
                carries_label = False
                for d in fv.cfg.reaching()[n.id].get(nm, ()):
                    dn = fv.cfg.nodes[d]
                    if dn.kind == "stmt" and isinstance(dn.ast, ast.Assign) and any(isinstance(x, ast.Name) and x.id == "label" for x in ast.walk(dn.ast.value)):
                        carries_label = True
                if not carries_label:
                    names.add(nm)
    if not names:
        for cs in fv.calls():
            hv = fv._helper_view(cs.call)
            if hv is None:
                continue
            g, _ = hv
            inner = _template_names(g.node) & set(g.params)
            for pname in inner:
                idx = g.params.index(pname)
                arg = None
                if idx < len(cs.call.args):
                    arg = cs.call.args[idx]
                for k in cs.call.keywords:
                    if k.arg == pname:
                        arg = k.value
                if isinstance(arg, ast.Name) and not (fv.f.params and arg.id == "label"):
                    # the helper's label parameter receives the caller's label: skip names that are only passed through
                    if pname != "label":
                        names.add(arg.id)
    return names.pop() if len(names) == 1 else None


def evaluate(ctx, t, L: str, cnt: str, step_counter: Optional[str]) -> Tuple[str, str]:
    """-> (verdict 'holds' | 'refuted' | 'unknown', detail)"""
    fv = t.fv
    cfg = fv.cfg
    G, P, Z = t.G, t.P, t.Z
    gt = cfg.nodes[G].ast.target
    if not (isinstance(gt, ast.Tuple) and len(gt.elts) == 3 and all(isinstance(x, ast.Name) for x in gt.elts)):
        return "unknown", "group loop does not unpack (sources, destinations, volumes)"
    gnames = [x.id for x in gt.elts]
    # definitions of the counter, by position
    defs = []
    for n in cfg.nodes:
        if n.kind != "stmt":
            continue
        a = n.ast
        if isinstance(a, ast.Assign) and len(a.targets) == 1 and is_name(a.targets[0], cnt):
            kind = "assign"
        elif isinstance(a, ast.AugAssign) and is_name(a.target, cnt) and isinstance(a.op, (ast.Add, ast.Sub)):
            kind = "aug"
        elif any(isinstance(x, ast.Name) and x.id == cnt and isinstance(x.ctx, ast.Store) for x in ast.walk(a)):
            return "unknown", f"`{stmt_key(a)[:50]}` defines the counter in an unsupported way"
        else:
            continue
        loops = [h for h in cfg.enclosing_loops(n.id)]
        if any(cfg.nodes[h].kind != "for" for h in loops):
            return "unknown", f"`{stmt_key(a)[:50]}` sits in a while loop"
        if loops == []:
            level = "pre" if cfg.reaches(n.id, G) else "post"
        elif loops[0] == G:
            level = "in"
        else:
            return "unknown", f"`{stmt_key(a)[:50]}` sits in an unexpected loop"
        if kind == "assign" and level not in ("pre", "post"):
            return "unknown", f"`{stmt_key(a)[:50]}` re-assigns the counter inside the loops"
        defs.append((n, kind, level))
    if not defs:
        return "unknown", "no definition of the counter found"

    def conds(nid: int, within) -> List[Tuple[ast.AST, bool, int]]:
        return [(cfg.nodes[d].ast, pol, d) for d, pol in fv.controlling(nid, within=within, skip_raising=True)]

    n_checked = 0
    selfn = fv.f.params[0] if fv.f.params else "self"
    # two worklist limits that both produce the table's step lists from the requested volumes 0 / 5 / 10 / 15:
    # 5.0 (every volume an exact multiple of the limit) and 6.0 (none is)
    for limit, sc in ((m, x) for m in (5.0, 6.0) for x in scenarios()):
        groups = [[list(WELL_LISTS[i]) for i in g] for g in sc]
        required = sum(max(len(l) - 1, 0) for g in groups for l in g)
        executed = sum(1 for g in groups for l in g for v in l if v > 0)
        nwells = sum(len(g) for g in groups)
        genv: Dict[str, Any] = {"source_wells": ["w"] * nwells, "destination_wells": ["w"] * nwells, "volumes": Vec(float(sum(l)) for g in groups for l in g),
                                f"{selfn}.max_volume": limit, f"{selfn}.auto_split": True}
        try:
            total = None
            # pre-loop value
            for n, kind, level in defs:
                if level == "pre":
                    if kind != "assign":
                        return "unknown", "counter is accumulated before it is initialised"
                    total = Ev(fv, dict(genv)).ev(n.ast.value, n.id)
            if total is None:
                total = 0 if any(level == "post" and kind == "assign" for _, kind, level in defs) else None
            if total is None:
                return "unknown", "counter has no initial value"
            for g in groups:
                env = dict(genv)
                env[gnames[0]], env[gnames[1]], env[gnames[2]] = ["w"] * len(g), ["w"] * len(g), Vec(float(sum(l)) for l in g)
                env[L] = g
                ev = Ev(fv, env)
                gbody = cfg.loop_body[G]

                def contribute(n, chain, envx):
                    """Sum of the contributions of definition `n` over the iterations of the loops in `chain` (inside one group)."""
                    if not chain:
                        evx = Ev(fv, envx)
                        if all(bool(evx.ev(test, d)) == pol for test, pol, d in conds(n.id, gbody)):
                            val = evx.ev(n.ast.value, n.id)
                            return val if isinstance(n.ast.op, ast.Add) else -val
                        return 0
                    h = chain[0]
                    acc = 0
                    for item in Ev(fv, envx).ev(cfg.nodes[h].ast.iter, h):
                        env2 = dict(envx)
                        Ev.bind(cfg.nodes[h].ast.target, item, env2)
                        acc += contribute(n, chain[1:], env2)
                    return acc

                for n, kind, level in defs:
                    if level == "in":
                        total = total + contribute(n, cfg.enclosing_loops(n.id)[1:], env)
            for n, kind, level in defs:
                if level == "post":
                    env = dict(genv)
                    env[cnt] = total
                    if step_counter:
                        env[step_counter] = executed
                    ev = Ev(fv, env)
                    if all(bool(ev.ev(test, d)) == pol for test, pol, d in conds(n.id, None)):
                        val = ev.ev(n.ast.value, n.id)
                        total = val if kind == "assign" else (total + val if isinstance(n.ast.op, ast.Add) else total - val)
        except Unsupported as ex:
            return "unknown", f"counter definition is outside the evaluator's fragment ({ex})"
        n_checked += 1
        # a negative count is never printed as such only if the label test is `> 0`; compare what would be reported
        if total != required and not (total <= 0 and required == 0 and _label_needs_positive(fv, cnt)):
            shape = [[len(l) for l in g] for g in groups]
            vols = [[float(sum(l)) for l in g] for g in groups]
            return "refuted", (f"for column groups with per-well step counts {shape} (requested volumes {vols}, max_volume {limit}) the counter evaluates to {total}, but splitting added "
                               f"{required} extra aspirate/dispense pair(s) (sum of max(len(steps) - 1, 0))")
    return "holds", f"counter equals sum(max(len(steps) - 1, 0)) on all {n_checked} scenarios of the length table"


def _label_needs_positive(fv, cnt: str) -> bool:
    """The label is annotated only under `cnt > 0` (so a non-positive count is reported like 0)."""
    for n in fv.cfg.nodes:
        if n.kind == "test" and isinstance(n.ast, ast.Compare) and len(n.ast.ops) == 1 and is_name(n.ast.left, cnt) and isinstance(n.ast.ops[0], ast.Gt) \
                and isinstance(n.ast.comparators[0], ast.Constant) and n.ast.comparators[0].value == 0:
            return True
    return False
