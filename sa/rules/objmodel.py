"""Object-model rules shared by several properties: the state of a labware / worklist is what its constructor set up, and no
special method, property, descriptor, class attribute or override changes that behind the back of the rules that read the
constructor and the methods.

  copy_protocol      a custom __deepcopy__ / __copy__ / copy() carries every attribute over, and copies what is written in place
  ctor_only          the geometry tables of a labware are bound in the constructor only
  property_identity  a property stores / returns its backing attribute unchanged (validation may raise)
  descriptor_state   a descriptor keeps no per-instance state on itself
  cls_settings       configured settings are read from the instance, not from the class
  override_calls_base an override of a method with checks / effects calls the base implementation

Every rule reports file:line of the offending construct; all of them are shape rules (nothing is executed)."""
from __future__ import annotations

import ast
from typing import Dict, List, Optional, Sequence, Set, Tuple

from ..defuse import show
from ..engine import own_walk
from ..model import ClassInfo
from .common import call_fname, is_name, stmt_key

COPY_METHODS = ("__deepcopy__", "__copy__", "copy")


def _family(ctx, names: Sequence[str]) -> List[ClassInfo]:
    """the named classes and every package class that inherits from one of them"""
    roots = [ctx.prog.class_by_name(n) for n in names]
    roots = [r for r in roots if r is not None]
    out: List[ClassInfo] = []
    for m in ctx.prog.modules.values():
        for c in getattr(m, "classes", {}).values():
            if any(r in ctx.prog.mro(c) for r in roots) and c not in out:
                out.append(c)
    return out


def _init_attrs(ctx, cls: ClassInfo) -> Dict[str, ast.AST]:
    """attribute -> value expression, for `self.X = ..` in the constructors along the MRO"""
    out: Dict[str, ast.AST] = {}
    for k in ctx.prog.mro(cls):
        init = k.methods.get("__init__") if isinstance(k, ClassInfo) else None
        if init is None or not init.params:
            continue
        selfn = init.params[0]
        for st in own_walk(init.node):
            if isinstance(st, (ast.Assign, ast.AnnAssign)) and getattr(st, "value", None) is not None:
                tgts = st.targets if isinstance(st, ast.Assign) else [st.target]
                for t in tgts:
                    for tt in (t.elts if isinstance(t, ast.Tuple) else [t]):
                        if isinstance(tt, ast.Attribute) and is_name(tt.value, selfn):
                            out.setdefault(tt.attr, st.value)
    return out


def _mutation_depth(ctx, cls: ClassInfo) -> Dict[str, int]:
    """attribute -> how deep the methods of the class family write into it in place: 1 for self.X[i] = / self.X.append(..),
    2 for self.X[k][i] = .."""
    MUT = {"append", "extend", "insert", "pop", "clear", "update", "setdefault", "add", "remove", "sort", "reverse"}
    depth: Dict[str, int] = {}
    for k in ctx.prog.mro(cls):
        if not isinstance(k, ClassInfo):
            continue
        for m in k.methods.values():
            if not m.params or m.name in COPY_METHODS:
                continue
            selfn = m.params[0]
            for sub in own_walk(m.node):
                root, d = None, 0
                if isinstance(sub, ast.Subscript) and isinstance(sub.ctx, (ast.Store, ast.Del)):
                    root, d = sub.value, 1
                elif isinstance(sub, ast.AugAssign) and isinstance(sub.target, ast.Subscript):
                    root, d = sub.target.value, 1
                elif isinstance(sub, ast.Call) and isinstance(sub.func, ast.Attribute) and sub.func.attr in MUT:
                    root, d = sub.func.value, 1
                while isinstance(root, ast.Subscript):
                    root, d = root.value, d + 1
                if isinstance(root, ast.Attribute) and is_name(root.value, selfn) and d:
                    depth[root.attr] = max(depth.get(root.attr, 0), d)
    return depth


def _copy_level(e: ast.AST, src_attr: str, selfn: str) -> int:
    """0: the same object, 1: a new container with the same elements, 2: elements copied as well (deepcopy)"""
    if isinstance(e, ast.IfExp):
        return min(_copy_level(e.body, src_attr, selfn) if not (isinstance(e.body, ast.Constant) and e.body.value is None) else 2,
                   _copy_level(e.orelse, src_attr, selfn) if not (isinstance(e.orelse, ast.Constant) and e.orelse.value is None) else 2)
    if isinstance(e, ast.Call):
        fn = call_fname(e)
        if fn == "deepcopy":
            return 2
        if fn in ("copy", "list", "dict", "tuple", "set", "array", "sorted"):
            return 1
        if fn == "getattr":
            return 0
        return 1  # some constructor / conversion: a new object
    if isinstance(e, (ast.ListComp, ast.DictComp, ast.SetComp)):
        elt = e.value if isinstance(e, ast.DictComp) else e.elt
        if isinstance(elt, ast.Call) and call_fname(elt) in ("copy", "deepcopy", "array", "list", "dict"):
            return 2
        return 1
    if isinstance(e, ast.Subscript) and isinstance(e.slice, ast.Slice):
        return 1
    if isinstance(e, ast.Constant):
        return 2
    return 0


def copy_protocol(ctx, rule: str, class_names: Sequence[str], what: str) -> None:
    n = 0
    for cls in _family(ctx, class_names):
        for mname in COPY_METHODS:
            m = cls.methods.get(mname)
            if m is None or not m.params:
                continue
            n += 1
            ctx.rep.touch(m)
            selfn = m.params[0]
            attrs = _init_attrs(ctx, cls)
            depth = _mutation_depth(ctx, cls)
            c = f"{m.qualname}"
            w = m.where()
            body = list(own_walk(m.node))
            # --- the clone is built by the constructor: type(self)(..) / Class(..)
            ctor_calls = [x for x in body if isinstance(x, ast.Call) and ((isinstance(x.func, ast.Call) and call_fname(x.func) == "type" and x.func.args and is_name(x.func.args[0], selfn))
                                                                            or (isinstance(x.func, ast.Name) and ctx.prog.class_by_name(x.func.id) in ctx.prog.mro(cls)))]
            if ctor_calls:
                init = next((k.methods["__init__"] for k in ctx.prog.mro(cls) if isinstance(k, ClassInfo) and "__init__" in k.methods), None)
                call = ctor_calls[0]
                if init is None or any(isinstance(a, ast.Starred) for a in call.args) or any(k.arg is None for k in call.keywords):
                    ctx.rep.inconclusive(rule, c, "cannot bind the arguments of the constructor call that builds the copy", where=w)
                    continue
                params = init.params[1:]
                bound: Dict[str, ast.AST] = {}
                for p, a in zip(params, call.args):
                    bound[p] = a
                for k in call.keywords:
                    bound[k.arg] = k.value
                # which attribute holds each constructor parameter?
                holder: Dict[str, str] = {}
                for a_, v_ in attrs.items():
                    for x in ast.walk(v_):
                        if isinstance(x, ast.Name) and x.id in params:
                            holder.setdefault(x.id, a_)
                bad = None
                for p in params:
                    if p not in holder:
                        continue
                    if p not in bound:
                        bad = f"the constructor parameter `{p}` is not handed over: the copy falls back to the default instead of the original's `{holder[p]}`"
                        break
                    a = bound[p]
                    got = a.attr if isinstance(a, ast.Attribute) and is_name(a.value, selfn) else None
                    if got is None or got.lstrip("_") != holder[p].lstrip("_"):
                        bad = f"the constructor parameter `{p}` receives `{show(a)[:40]}` instead of the original's `{holder[p]}`"
                        break
                ctx.rep.check(bad is None, rule, c + "/ctor-args", "the copy is constructed with the original's own settings, each in its place",
                              f"{bad}: {what}" if bad else "", where=m.where(call))
                continue
            # --- the clone is a shallow copy / an empty object that is filled attribute by attribute
            shallow = any(isinstance(x, ast.Call) and call_fname(x) == "copy" and len(x.args) == 1 and is_name(x.args[0], selfn) and isinstance(x.func, ast.Attribute) for x in body) \
                or any(isinstance(x, ast.Call) and isinstance(x.func, ast.Attribute) and x.func.attr == "__copy__" for x in body) \
                or any(isinstance(x, ast.Call) and isinstance(x.func, ast.Attribute) and x.func.attr == "update" and isinstance(x.func.value, ast.Attribute) and x.func.value.attr == "__dict__" for x in body)
            level: Dict[str, int] = {a_: 0 for a_ in attrs} if shallow else {}
            generic_deep: Optional[Set[str]] = None  # container kinds that a generic loop over vars(self) deep-copies
            if any(isinstance(x, ast.Call) and isinstance(x.func, ast.Attribute) and x.func.attr == "update" and isinstance(x.func.value, ast.Attribute) and x.func.value.attr == "__dict__"
                   and any(isinstance(y, ast.Call) and call_fname(y) == "deepcopy" for a_ in x.args for y in ast.walk(a_)) for x in body):
                generic_deep = {"*"}  # clone.__dict__.update(copy.deepcopy(self.__dict__, memo))
            if any(isinstance(x, ast.Call) and call_fname(x) == "deepcopy" and x.args and any(
                    (isinstance(y, ast.Attribute) and y.attr == "__dict__" and is_name(y.value, selfn)) or (isinstance(y, ast.Call) and call_fname(y) == "vars") for y in ast.walk(x.args[0])) for x in body):
                generic_deep = {"*"}  # state = copy.deepcopy(self.__dict__, memo); clone.__dict__.update(state)
            for x in body:
                # clone.X = <expr>
                if isinstance(x, ast.Assign) and len(x.targets) == 1 and isinstance(x.targets[0], ast.Attribute) and isinstance(x.targets[0].value, ast.Name) and x.targets[0].value.id != selfn:
                    level[x.targets[0].attr] = max(level.get(x.targets[0].attr, 0), _copy_level(x.value, x.targets[0].attr, selfn))
                # setattr(clone, "X", <expr>)  /  for attr in ("a", "b"): setattr(clone, attr, getattr(self, attr))
                if isinstance(x, ast.Call) and call_fname(x) == "setattr" and len(x.args) == 3:
                    if isinstance(x.args[1], ast.Constant) and isinstance(x.args[1].value, str):
                        level[x.args[1].value] = max(level.get(x.args[1].value, 0), _copy_level(x.args[2], x.args[1].value, selfn))
                if isinstance(x, ast.For) and isinstance(x.iter, (ast.Tuple, ast.List)) and all(isinstance(e, ast.Constant) and isinstance(e.value, str) for e in x.iter.elts) and isinstance(x.target, ast.Name):
                    for s in ast.walk(x):
                        if isinstance(s, ast.Call) and call_fname(s) == "setattr" and len(s.args) == 3 and is_name(s.args[1], x.target.id):
                            for e in x.iter.elts:
                                level[e.value] = max(level.get(e.value, 0), _copy_level(s.args[2], e.value, selfn))
                # for attr, value in vars(self).items(): [if isinstance(value, (list, dict)):] setattr(clone, attr, copy.deepcopy(value, memo))
                if isinstance(x, ast.For) and isinstance(x.iter, ast.Call) and call_fname(x.iter) == "items" and any(
                        (isinstance(y, ast.Call) and call_fname(y) == "vars") or (isinstance(y, ast.Attribute) and y.attr == "__dict__") for y in ast.walk(x.iter)):
                    deep = any(isinstance(s, ast.Call) and call_fname(s) == "deepcopy" for s in ast.walk(x))
                    if deep:
                        kinds: Set[str] = set()
                        conditional = False
                        for s in ast.walk(x):
                            if isinstance(s, ast.If):
                                conditional = True
                                for y in ast.walk(s.test):
                                    if isinstance(y, ast.Name) and y.id in ("list", "dict", "set", "ndarray", "tuple"):
                                        kinds.add(y.id)
                                    if isinstance(y, ast.Attribute) and y.attr == "ndarray":
                                        kinds.add("ndarray")
                        generic_deep = kinds if conditional else {"*"}
            if generic_deep is not None:
                for a_, v_ in attrs.items():
                    kind = _value_kind(v_)
                    if "*" in generic_deep or kind in generic_deep:
                        level[a_] = 2
            if not level and not shallow:
                ctx.rep.inconclusive(rule, c, "cannot see how the copy is put together", where=w)
                continue
            problems = []
            for a_ in sorted(attrs):
                # __copy__ / copy() are shallow copies by contract (copy.copy shares the attribute values as well)
                need = depth.get(a_, 0) if mname == "__deepcopy__" else 0
                if a_ not in level:
                    problems.append(f"`{a_}` is not carried over to the copy (it falls back to a class-level default or is missing)")
                elif level[a_] < need:
                    problems.append(f"`{a_}` is {'shared with' if level[a_] == 0 else 'copied only one level deep from'} the original although the methods of {cls.name} write into it in place")
            ctx.rep.check(not problems, rule, c + "/attributes", "every attribute of the constructor is carried over; what is written in place is copied",
                          (problems[0] + f" ({len(problems)} attribute(s)): {what}") if problems else "", where=w)
    if n == 0:
        ctx.rep.holds(rule, "/".join(class_names) + "/no-copy-protocol", "no custom __deepcopy__ / __copy__ / copy(): copies are made by the generic protocol")


def _value_kind(v: ast.AST) -> str:
    if isinstance(v, (ast.List, ast.ListComp)) or (isinstance(v, ast.Call) and call_fname(v) in ("list", "sorted")):
        return "list"
    if isinstance(v, (ast.Dict, ast.DictComp)) or (isinstance(v, ast.Call) and call_fname(v) in ("dict", "defaultdict", "get_initial_composition")):
        return "dict"
    if isinstance(v, ast.Call) and call_fname(v) in ("array", "astype", "copy", "zeros", "full", "reshape", "zeros_like"):
        return "ndarray"
    return "other"


def ctor_only(ctx, rule: str, class_name: str, attrs: Sequence[str], what: str) -> None:
    """The named attributes are bound in constructors only (copies made by the copy methods aside)."""
    hits = []
    for cls in _family(ctx, [class_name]):
        for m in cls.methods.values():
            if m.name in ("__init__",) + COPY_METHODS or not m.params:
                continue
            selfn = m.params[0]
            for st in own_walk(m.node):
                tgts = st.targets if isinstance(st, ast.Assign) else [st.target] if isinstance(st, (ast.AnnAssign, ast.AugAssign)) else []
                for t in tgts:
                    for tt in (t.elts if isinstance(t, ast.Tuple) else [t]):
                        if isinstance(tt, ast.Attribute) and is_name(tt.value, selfn) and tt.attr in attrs:
                            v_ = getattr(st, "value", None)
                            if isinstance(v_, (ast.Name, ast.Attribute, ast.Subscript)) and not isinstance(st, ast.AugAssign):
                                continue  # a saved table put back as it was (e.g. from a state dict)
                            hits.append((m, st, tt.attr))
    for m, st, a in hits:
        ctx.rep.refuted(rule, f"{m.qualname}/{a}", f"`{stmt_key(st)[:60]}` binds `{a}` outside the constructor (in {m.name}): {what}", where=m.where(st))
    if not hits:
        ctx.rep.holds(rule, f"{class_name}/constructor-only[{', '.join(attrs)}]", "bound in the constructor only")


def property_identity(ctx, rule: str, class_names: Sequence[str], what: str, getters: bool = True) -> None:
    """A property setter stores the given value unchanged (it may refuse it); a getter of a property that has a setter, or
    whose backing attribute `_x` the constructor binds, returns that attribute unconverted."""
    CONV = {"int", "float", "round", "around", "rint", "floor", "ceil", "trunc", "abs", "strip", "lstrip", "rstrip", "lower", "upper", "title", "casefold", "bool", "str", "min", "max", "clip"}
    n = 0
    for cls in _family(ctx, class_names):
        setters = {}
        getters_ = {}
        for node in cls.node.body:
            if not isinstance(node, ast.FunctionDef):
                continue
            for d in node.decorator_list:
                if isinstance(d, ast.Attribute) and d.attr == "setter":
                    setters[node.name] = node
                if (isinstance(d, ast.Name) and d.id in ("property", "cached_property")) or (isinstance(d, ast.Attribute) and d.attr in ("cached_property",)):
                    getters_[node.name] = (node, d)
        f_any = next(iter(cls.methods.values()), None)
        where = (lambda nd: f"{cls.module.relpath}:{getattr(nd, 'lineno', 0)} ({cls.name}.{nd.name})")
        for name, node in setters.items():
            n += 1
            params = [a.arg for a in node.args.args]
            if len(params) != 2:
                continue
            selfn, val = params
            stores = [st for st in ast.walk(node) if isinstance(st, ast.Assign) and any(isinstance(t, ast.Attribute) and is_name(t.value, selfn) for t in st.targets)]
            bad = None
            for st in stores:
                if not is_name(st.value, val):
                    conv = sorted({call_fname(x) for x in ast.walk(st.value) if isinstance(x, ast.Call)} & CONV)
                    bad = (st, conv)
            rebinds = [st for st in ast.walk(node) if isinstance(st, (ast.Assign, ast.AugAssign)) and any(is_name(t, val) for t in (st.targets if isinstance(st, ast.Assign) else [st.target]))]
            if rebinds and bad is None:
                bad = (rebinds[0], sorted({call_fname(x) for x in ast.walk(rebinds[0].value) if isinstance(x, ast.Call)} & CONV))
            ctx.rep.check(bad is None, rule, f"{cls.qualname}.{name}/setter", "the setter stores the given value unchanged",
                          f"the setter of `{cls.name}.{name}` stores `{show(bad[0].value)[:50] if bad else ''}` instead of the value it was given"
                          + (f" (converted with {bad[1]})" if bad and bad[1] else "") + f": {what}", where=where(node))
        if getters:
            init_attrs = _init_attrs(ctx, cls)
            for name, (node, deco) in getters_.items():
                backing = "_" + name
                if name not in setters and backing not in init_attrs:
                    continue
                n += 1
                selfn = node.args.args[0].arg if node.args.args else "self"
                rets = [r for r in ast.walk(node) if isinstance(r, ast.Return) and r.value is not None]
                bad = None
                for r in rets:
                    conv = sorted({call_fname(x) for x in ast.walk(r.value) if isinstance(x, ast.Call)} & CONV)
                    reads = any(isinstance(x, ast.Attribute) and is_name(x.value, selfn) and x.attr == backing for x in ast.walk(r.value))
                    if reads and conv:
                        bad = (r, conv)
                cached = (isinstance(deco, ast.Name) and deco.id == "cached_property") or (isinstance(deco, ast.Attribute) and deco.attr == "cached_property")
                ctx.rep.check(bad is None and not cached, rule, f"{cls.qualname}.{name}/getter", "the getter returns the stored value unconverted",
                              (f"`{cls.name}.{name}` is a cached property: it keeps returning what it computed first" if cached else
                               f"the getter of `{cls.name}.{name}` returns `{show(bad[0].value)[:50] if bad else ''}` (converted with {bad[1] if bad else ''}), not the stored value") + f": {what}", where=where(node))
    if n == 0:
        ctx.rep.holds(rule, "/".join(class_names) + "/no-converting-property", "no property with a setter / a constructor-bound backing attribute")


def descriptor_state(ctx, rule: str, what: str) -> None:
    """Descriptor objects live on the class: per-instance state written to the descriptor itself is shared by all instances."""
    hits = []
    n = 0
    for m in ctx.prog.modules.values():
        for cls in getattr(m, "classes", {}).values():
            for mname in ("__get__", "__set__"):
                f = cls.methods.get(mname)
                if f is None or not f.params:
                    continue
                n += 1
                selfn = f.params[0]
                for st in own_walk(f.node):
                    tgts = st.targets if isinstance(st, ast.Assign) else [st.target] if isinstance(st, (ast.AnnAssign, ast.AugAssign)) else []
                    for t in tgts:
                        # (`self.values[instance] = v`, a table keyed by the instance, is the usual correct pattern and not reported)
                        if isinstance(t, ast.Attribute) and is_name(t.value, selfn):
                            hits.append((f, st, t.attr))
    for f, st, a in hits:
        ctx.rep.refuted(rule, f"{f.qualname}/{a}", f"`{stmt_key(st)[:60]}` keeps the value on the descriptor object (`{a}`), which is one object per class: every instance reads what the last one wrote - {what}",
                        where=f.where(st))
    if not hits:
        ctx.rep.holds(rule, "descriptors/no-shared-state", f"{n} descriptor method(s), none keeps per-instance state on the descriptor")


def cls_settings(ctx, rule: str, class_names: Sequence[str], settings: Sequence[str], what: str) -> None:
    """`cls.<setting>` / `<Class>.<setting>` reads the class-level default, not what the instance was configured with."""
    hits = []
    fam = _family(ctx, class_names)
    names = {c.name for c in fam}
    for cls in fam:
        for m in cls.methods.values():
            for x in own_walk(m.node):
                if isinstance(x, ast.Attribute) and isinstance(x.ctx, ast.Load) and x.attr in settings and isinstance(x.value, ast.Name) and (x.value.id == "cls" or x.value.id in names):
                    hits.append((m, x))
                if isinstance(x, ast.Attribute) and isinstance(x.ctx, ast.Load) and x.attr in settings and isinstance(x.value, ast.Call) and call_fname(x.value) == "type":
                    hits.append((m, x))
    for m, x in hits:
        ctx.rep.refuted(rule, f"{m.qualname}/{show(x)}", f"`{show(x)}` reads the class-level value of `{x.attr}`, not the one this object was configured with: {what}", where=m.where(x))
    if not hits:
        ctx.rep.holds(rule, "/".join(class_names) + f"/instance-settings[{', '.join(settings)}]", "the settings are read from the instance everywhere")


def override_calls_base(ctx, rule: str, class_names: Sequence[str], what: str, skip: Sequence[str] = ("__repr__", "__str__")) -> None:
    """An override of a package method that checks arguments (raise / assert) or has effects on `self` calls the base
    implementation - otherwise what the base does is skipped for the subclass, and the rules that read the base method do not
    describe the subclass."""
    n = 0
    hits = []
    for cls in _family(ctx, class_names):
        mro = [k for k in ctx.prog.mro(cls) if isinstance(k, ClassInfo)]
        for name, m in cls.methods.items():
            if name in skip or not m.params:
                continue
            base = next((k.methods[name] for k in mro[1:] if name in k.methods), None)
            if base is None:
                continue
            bbody = [s for s in base.node.body if not (isinstance(s, ast.Expr) and isinstance(s.value, ast.Constant))]
            trivial = all(isinstance(s, (ast.Pass, ast.Raise)) or (isinstance(s, ast.Return) and s.value is None) for s in bbody)
            if trivial:
                continue
            n += 1
            bselfn = base.params[0] if base.params else "self"
            checks = any(isinstance(x, (ast.Raise, ast.Assert)) for x in own_walk(base.node))
            effects = any((isinstance(x, ast.Attribute) and isinstance(x.ctx, ast.Store) and is_name(x.value, bselfn))
                          or (isinstance(x, ast.Call) and isinstance(x.func, ast.Attribute) and is_name(x.func.value, bselfn)) for x in own_walk(base.node))
            calls_super = any(isinstance(x, ast.Call) and isinstance(x.func, ast.Attribute) and x.func.attr == name and (
                (isinstance(x.func.value, ast.Call) and call_fname(x.func.value) == "super") or (isinstance(x.func.value, ast.Name) and x.func.value.id in {k.name for k in mro[1:]})) for x in own_walk(m.node))
            if (checks or effects) and not calls_super:
                # evidence that something is dropped: fewer raising statements than the base, or a self-call of the base that is gone
                n_base = sum(isinstance(x, (ast.Raise, ast.Assert)) for x in own_walk(base.node))
                n_over = sum(isinstance(x, (ast.Raise, ast.Assert)) for x in own_walk(m.node))
                selfn = m.params[0]
                base_calls = {x.func.attr for x in own_walk(base.node) if isinstance(x, ast.Call) and isinstance(x.func, ast.Attribute) and is_name(x.func.value, bselfn)}
                over_calls = {x.func.attr for x in own_walk(m.node) if isinstance(x, ast.Call) and isinstance(x.func, ast.Attribute) and is_name(x.func.value, selfn)}
                lost = sorted(base_calls - over_calls)
                if n_over < n_base:
                    hits.append((cls, m, base, f"the base implementation has {n_base} raising check(s), the override {n_over}", True))
                elif lost:
                    hits.append((cls, m, base, f"the base implementation calls self.{lost[0]}(), the override does not", True))
                else:
                    hits.append((cls, m, base, "it re-implements the method", False))
    for cls, m, base, kind, sure in hits:
        msg = f"{cls.name}.{m.name} overrides {base.qualname.split(':')[-1]} without calling it ({kind}): what the base implementation does is not done for a {cls.name} - {what}"
        if sure:
            ctx.rep.refuted(rule, f"{m.qualname}/override", msg, where=m.where())
        else:
            ctx.rep.inconclusive(rule, f"{m.qualname}/override", msg + " (the rules read the base implementation; they cannot vouch for the override)", where=m.where())
    if not hits:
        ctx.rep.holds(rule, "/".join(class_names) + "/overrides", f"{n} override(s) of methods with checks / effects, all call the base implementation")


LABWARE_GEOMETRY = ("_wells", "_indices", "_positions", "row_ids", "column_ids", "virtual_rows")
WORKLIST_SETTINGS = ("max_volume", "auto_split", "diti_mode", "_filepath")


def labware_model(ctx, rule: str) -> None:
    """The object model of Labware / Trough that the other rules rely on."""
    what = "the labware no longer is what its constructor set up (limits, geometry, aliasing of trough wells, private state)"
    copy_protocol(ctx, rule, ("Labware",), "a copied labware shares state with / differs from the original")
    ctor_only(ctx, rule, "Labware", LABWARE_GEOMETRY, "the well tables of an existing labware are replaced by something the constructor's rules were not applied to")
    property_identity(ctx, rule, ("Labware",), what)
    override_calls_base(ctx, rule, ("Labware",), what)
    descriptor_state(ctx, rule, what)
    protocol_methods(ctx, rule, ("Labware",), LABWARE_PROTOCOL, "attributes are computed / restored behind the constructor's back (deferred validation, tables rebuilt by another formula): " + what)
    from .common import class_state_rule

    class_state_rule(ctx, rule, ("Labware", "Trough"), "its well tables / state")


def worklist_model(ctx, rule: str) -> None:
    """The object model of the worklist classes that the other rules rely on."""
    what = "the worklist no longer works with the limit / switches the user configured"
    copy_protocol(ctx, rule, ("BaseWorklist",), "a copied worklist is configured differently from the original")
    property_identity(ctx, rule, ("BaseWorklist",), what)
    cls_settings(ctx, rule, ("BaseWorklist",), WORKLIST_SETTINGS, what)
    override_calls_base(ctx, rule, ("BaseWorklist",), what)
    descriptor_state(ctx, rule, what)
    shared_default_object(ctx, rule, ("BaseWorklist",), what)
    protocol_methods(ctx, rule, ("BaseWorklist",), WORKLIST_PROTOCOL, "the record list is read, compared, formatted or the class is set up differently from a plain list of records - " + what)


def protocol_methods(ctx, rule: str, class_names: Sequence[str], names: Sequence[str], what: str) -> None:
    """The classes do not define the named special methods (or define them as a plain delegation to the inherited one): they
    change how the object is read, copied, compared or created behind the back of every rule that reads its methods.
    A definition is reported as INCONCLUSIVE: its mere presence is no violation, but the rules cannot vouch for the class."""
    hits = []
    for cls in _family(ctx, class_names):
        for name in names:
            m = cls.methods.get(name)
            if m is None:
                continue
            body = [s for s in m.node.body if not (isinstance(s, ast.Expr) and isinstance(s.value, ast.Constant))]
            deleg = len(body) == 1 and isinstance(body[0], (ast.Return, ast.Expr)) and isinstance(body[0].value, ast.Call) and isinstance(body[0].value.func, ast.Attribute) \
                and body[0].value.func.attr == name and isinstance(body[0].value.func.value, ast.Call) and call_fname(body[0].value.func.value) == "super"
            if not deleg and name in ("__getstate__", "__setstate__") and _passthrough_state(m):
                deleg = True  # the instance dictionary saved / restored as it is
            if not deleg:
                hits.append((cls, m))
    for cls, m in hits:
        # what such a method does cannot be read off its shape: the object model the rules rely on no longer holds, the verdict is
        # INCONCLUSIVE (not a violation) unless a rule of the property can evaluate the method (see C17.str/__format__)
        ctx.rep.inconclusive(rule, f"{m.qualname}/protocol", f"{cls.name} defines `{m.name}`: {what} (outside the object model the rules of this property rely on)", where=m.where())
    if not hits:
        ctx.rep.holds(rule, "/".join(class_names) + f"/protocol[{len(names)} special methods]", "none of them is (re)defined")


def _passthrough_state(m) -> bool:
    """__getstate__ that returns the instance dictionary (or a copy / None when empty), __setstate__ that puts it back with
    `self.__dict__.update(state)` / `self.__dict__ = state`: nothing is dropped, rebuilt or converted."""
    selfn = m.params[0]

    def is_dict(e) -> bool:
        return isinstance(e, ast.Attribute) and e.attr == "__dict__" and is_name(e.value, selfn)

    locals_: Set[str] = set()
    for st in m.node.body:
        if isinstance(st, ast.Expr) and isinstance(st.value, ast.Constant):
            continue
        if isinstance(st, ast.Return):
            v = st.value
            if v is None:
                continue
            names = {x.id for x in ast.walk(v) if isinstance(x, ast.Name)} - {selfn}
            if not names <= locals_ | set(m.params) or any(isinstance(x, (ast.Subscript, ast.DictComp, ast.ListComp, ast.Dict)) for x in ast.walk(v)) \
                    or any(isinstance(x, ast.Call) and call_fname(x) not in ("copy", "dict") for x in ast.walk(v)):
                return False
            continue
        if isinstance(st, ast.Assign) and len(st.targets) == 1 and isinstance(st.targets[0], ast.Name) and (is_dict(st.value) or (
                isinstance(st.value, ast.Call) and call_fname(st.value) in ("copy", "dict") and any(is_dict(x) for x in ast.walk(st.value)))):
            locals_.add(st.targets[0].id)
            continue
        if isinstance(st, ast.Assign) and len(st.targets) == 1 and is_dict(st.targets[0]) and isinstance(st.value, ast.Name) and st.value.id in m.params:
            continue
        if isinstance(st, ast.Expr) and isinstance(st.value, ast.Call) and isinstance(st.value.func, ast.Attribute) and st.value.func.attr == "update" and is_dict(st.value.func.value) \
                and len(st.value.args) == 1 and isinstance(st.value.args[0], ast.Name) and st.value.args[0].id in m.params:
            continue
        return False
    return True


def unique_classes(ctx, rule: str, names: Sequence[str], what: str) -> None:
    """Each of the named classes exists once in the package: with a second class of the same name the public name and the
    class that the code raises / tests against can be different objects."""
    for name in names:
        found = [c for m in ctx.prog.modules.values() for c in getattr(m, "classes", {}).values() if c.name == name]
        if len(found) == 1:
            ctx.rep.holds(rule, f"{name}/unique", f"one class named {name} ({found[0].qualname})")
        elif not found:
            ctx.rep.inconclusive(rule, f"{name}/unique", "class not found")
        else:
            ctx.rep.refuted(rule, f"{name}/unique", f"{len(found)} classes are named `{name}` ({', '.join(c.qualname for c in found)}): {what}",
                            where=f"{found[1].module.relpath}:{found[1].node.lineno}")


def abc_registration(ctx, rule: str, what: str) -> None:
    """No `<ABC>.register(<type>)` at import time: it changes what isinstance() answers for that type in the whole process."""
    hits = []
    for m in ctx.prog.modules.values():
        for x in ast.walk(m.tree):
            if isinstance(x, ast.Call) and isinstance(x.func, ast.Attribute) and x.func.attr == "register" and len(x.args) == 1 \
                    and any(isinstance(y, ast.Attribute) and y.attr in ("Sequence", "Iterable", "Collection", "Sized", "Container", "Mapping", "MutableSequence", "Number", "Integral", "Real")
                            for y in ast.walk(x.func.value)) and not any(isinstance(p_, (ast.FunctionDef,)) and any(x is z for z in ast.walk(p_)) for p_ in ast.walk(m.tree)):
                hits.append((m, x))
    for m, x in hits:
        ctx.rep.refuted(rule, f"{m.name}/abc-register", f"`{show(x)[:60]}` at import time makes isinstance(.., {show(x.func.value)}) true for `{show(x.args[0])}` everywhere: {what}",
                        where=f"{m.relpath}:{x.lineno}")
    if not hits:
        ctx.rep.holds(rule, "package/no-abc-registration", "no abstract base class is extended by registration at import time")


def enum_missing(ctx, rule: str, module_suffixes: Sequence[str], what: str) -> None:
    """An Enum with a `_missing_` hook turns values that are not member values into members."""
    hits = []
    for m in ctx.prog.modules.values():
        if not any(m.relpath.endswith(s) for s in module_suffixes):
            continue
        for c in getattr(m, "classes", {}).values():
            if "_missing_" in c.methods and any("Enum" in show(b) for b in c.base_exprs) and any(
                    isinstance(x, ast.Return) and x.value is not None and not (isinstance(x.value, ast.Constant) and x.value.value is None) for x in own_walk(c.methods["_missing_"].node)):
                hits.append(c)
    for c in hits:
        f = c.methods["_missing_"]
        ctx.rep.refuted(rule, f"{c.qualname}/_missing_", f"the enum `{c.name}` defines `_missing_`: values that are not member values are mapped to members instead of being refused - {what}", where=f.where())
    if not hits:
        ctx.rep.holds(rule, "/".join(module_suffixes) + "/no-enum-missing-hook", "no enum accepts foreign values through `_missing_`")


WORKLIST_PROTOCOL = ("__iter__", "__len__", "__getitem__", "__setitem__", "__delitem__", "__contains__", "__reversed__", "__bool__", "__eq__", "__ne__", "__hash__", "__format__",
                     "__getattr__", "__getattribute__", "__setattr__", "__init_subclass__", "__new__", "__mul__", "__rmul__", "__imul__", "sort", "reverse", "pop", "remove")
LABWARE_PROTOCOL = ("__getattr__", "__getattribute__", "__setattr__", "__delattr__", "__new__", "__init_subclass__", "__getstate__", "__setstate__", "__reduce__", "__reduce_ex__")


def shared_default_object(ctx, rule: str, class_names: Sequence[str], what: str) -> None:
    """A class-level attribute bound to an object of a package class (a settings record, a table) that a constructor hands to
    the instance as its own state: all instances that took the default share that one object."""
    hits = []
    for cls in _family(ctx, class_names):
        shared = {}
        for k in ctx.prog.mro(cls):
            if not isinstance(k, ClassInfo):
                continue
            for name_, v in k.class_assigns.items():
                if isinstance(v, ast.Call) and isinstance(v.func, ast.Name) and ctx.prog.class_by_name(v.func.id) is not None:
                    target = ctx.prog.class_by_name(v.func.id)
                    frozen = any(isinstance(d, ast.Call) and any(kw.arg == "frozen" and isinstance(kw.value, ast.Constant) and kw.value.value is True for kw in d.keywords) for d in target.node.decorator_list)
                    is_enum_or_tuple = any(("Enum" in show(b)) or ("NamedTuple" in show(b)) for b in target.base_exprs)
                    if not frozen and not is_enum_or_tuple:
                        shared.setdefault(name_, (k, v))
        if not shared:
            continue
        init = cls.methods.get("__init__")
        if init is None or not init.params:
            continue
        selfn = init.params[0]
        for st in own_walk(init.node):
            if isinstance(st, (ast.Assign, ast.AnnAssign)) and getattr(st, "value", None) is not None:
                tgts = st.targets if isinstance(st, ast.Assign) else [st.target]
                if any(isinstance(t, ast.Attribute) and is_name(t.value, selfn) for t in tgts):
                    for x in ast.walk(st.value):
                        if isinstance(x, ast.Attribute) and x.attr in shared and isinstance(x.value, ast.Name) and (x.value.id in (selfn, "cls") or ctx.prog.class_by_name(x.value.id) is not None):
                            # used as a value (not only compared)
                            in_compare = any(isinstance(c_, ast.Compare) and any(x is y for y in ast.walk(c_)) for c_ in ast.walk(st.value))
                            standalone = not in_compare or any(isinstance(c_, ast.IfExp) and (c_.body is x or c_.orelse is x) for c_ in ast.walk(st.value)) \
                                or any(isinstance(c_, ast.BoolOp) and any(v_ is x for v_ in c_.values) for c_ in ast.walk(st.value))
                            if standalone:
                                hits.append((init, st, x.attr))
    for init, st, a in hits:
        ctx.rep.refuted(rule, f"{init.qualname}/{a}", f"`{stmt_key(st)[:70]}` makes the class-level object `{a}` the state of the instance: every object that took the default shares it, so a change made "
                        f"through one shows in all - {what}", where=init.where(st))
    if not hits:
        ctx.rep.holds(rule, "/".join(class_names) + "/no-shared-default-object", "no class-level object is handed to instances as their state")
