"""C16 - EVO and Fluent worklists differ only in trough well numbers."""
from __future__ import annotations

import ast
import re
from typing import List, Optional

from ..defuse import key, show
from ..engine import own_walk
from ..model import AnalysisInconclusive, ClassInfo
from ..siblings import canonical_body, dump, first_difference, show_stmt
from .common import concrete_devices, is_name, raise_class, stmt_key

EXPLANATION = (
    "C16: sibling agreement. The set of members each device class defines is compared with an allow-list "
    "(__init__ as a pure delegation, _get_well_position, transfer, evo_* additions); the two transfer copies are "
    "canonicalised (docstrings/annotations dropped, aliases resolved, locals alpha-renamed, assert => if-raise) and "
    "compared statement by statement with two named exceptions (the deprecated wash_scheme=None block, the class of "
    "the unequal-length rejection); the numbering functions agree on plates and differ on troughs as specified; the "
    "generic base refuses device-specific operations on every path."
)
ASSUMPTIONS = ["operations not overridden by a device class are literally the same code for both devices"]

NEUTRAL_EXC = "Error"
KEEP_EXC = {"InvalidOperationError", "VolumeOverflowError", "VolumeUnderflowError", "VolumeViolationException", "CompatibilityError"}


def run(ctx) -> None:
    ctx.guard("C16.override-set", override_set)
    ctx.guard("C16.transfer-twins", transfer_twins)
    ctx.guard("C16.history-twins", label_twins)
    ctx.guard("C16.numbering-diff", numbering_diff)
    ctx.guard("C16.generic-refuses", generic_refuses)
    # identical histories: both copies of transfer count the condensed entries and the LVH steps the same (required) way,
    # and hand the same liquid to the dispense
    from . import c01, c06, c07, c11
    from .common import concrete_devices

    for dev in concrete_devices(ctx):
        ctx.reuse("C16.history-twins", c11.condense_count, dev)
        ctx.reuse("C16.history-twins", c11.lvh_count, dev)
        ctx.reuse("C16.state-twins", c01.pair_transfer, dev)
        ctx.reuse("C16.step-twins", c07.step_block, dev)
        ctx.reuse("C16.step-twins", c07.tip_action, dev)
        ctx.reuse("C16.step-twins", c07.breaks, dev)
        ctx.reuse("C16.step-twins", c07.reject, dev)
        ctx.reuse("C16.step-twins", c06.wiring, dev)
        ctx.reuse("C16.step-twins", c06.iteration_space, dev)
    # both copies settle the partitioning mode the same way (own arguments, in the same order, same default)
    from . import c18

    for dev in concrete_devices(ctx):
        ctx.reuse("C16.order-twins", c18.wiring, dev)
    # both copies decide "same labware" the same way: by identity (a value-based __eq__ would split `==` from `is`)
    from .common import identity_eq_rule

    ctx.reuse("C16.history-twins", identity_eq_rule, "C11.same-labware")
    # distribute (one shared implementation) books amounts that do not depend on the device's well numbering
    ctx.reuse("C16.state-twins", c01.pair_distribute, "C01.pair-distribute")
    from . import c04

    ctx.reuse("C16.state-twins", c04.pairing_family)
    # the order of the steps does not depend on the device: rows are ordered by well ID, not by device position
    from . import c18

    ctx.reuse("C16.order-twins", c18.sorting)
    ctx.reuse("C16.order-twins", c18.grouping)
    # both devices reject the same operations: neither copy discards an error of a tracked operation
    from . import c02

    ctx.reuse("C16.step-twins", c02.no_swallow)
    # both devices are configured and entered the same way: no class-level settings, no override that skips the base behaviour
    from . import c17, objmodel

    ctx.guard("C16.override-set", objmodel.worklist_model, "C16.override-set")
    ctx.reuse("C16.override-set", c17.context)


def _pure_super_delegation(f, name: str) -> bool:
    """docstring, logging calls, then `return super().<name>(<the parameters, unchanged and in order / by their own keyword>)`
    (or the call as a statement followed by a bare return for a method that returns nothing)"""
    body = [s_ for s_ in f.node.body if not (isinstance(s_, ast.Expr) and isinstance(s_.value, ast.Constant))]
    calls = []
    for s_ in body:
        if isinstance(s_, ast.Expr) and isinstance(s_.value, ast.Call) and isinstance(s_.value.func, ast.Attribute) and s_.value.func.attr in ("debug", "info", "warning") \
                and isinstance(s_.value.func.value, ast.Name) and s_.value.func.value.id in ("logger", "_log", "log", "logging", "_logger"):
            continue
        if isinstance(s_, ast.Return) and s_.value is None:
            continue
        if isinstance(s_, (ast.Return, ast.Expr)) and isinstance(s_.value, ast.Call):
            calls.append(s_.value)
            continue
        return False
    if len(calls) != 1:
        return False
    c = calls[0]
    if not (isinstance(c.func, ast.Attribute) and c.func.attr == name and isinstance(c.func.value, ast.Call) and isinstance(c.func.value.func, ast.Name) and c.func.value.func.id == "super"):
        return False
    a = f.node.args
    params = [x.arg for x in a.posonlyargs + a.args][1:]
    kwonly = [x.arg for x in a.kwonlyargs]
    given = []
    for x in c.args:
        if isinstance(x, ast.Starred):
            if not (a.vararg and isinstance(x.value, ast.Name) and x.value.id == a.vararg.arg):
                return False
            continue
        if not isinstance(x, ast.Name):
            return False
        given.append(x.id)
    for k in c.keywords:
        if k.arg is None:
            if not (a.kwarg and isinstance(k.value, ast.Name) and k.value.id == a.kwarg.arg):
                return False
            continue
        if not (isinstance(k.value, ast.Name) and k.value.id == k.arg):
            return False
        given.append(k.arg)
    pos_given = [x.id for x in c.args if isinstance(x, ast.Name)]
    return pos_given == params[:len(pos_given)] and sorted(given) == sorted(params + kwonly)


def override_set(ctx) -> None:
    rule = "C16.override-set"
    base = ctx.prog.require_class("BaseWorklist", rule)
    base_members = set(base.methods) | set(base.class_assigns)
    n = 0
    for dev in ctx.prog.subclasses(base):
        for name, f in sorted(dev.methods.items()):
            n += 1
            ctx.rep.touch(f)
            c = f"{dev.name}.{name}"
            if name in ("_get_well_position", "transfer"):
                ctx.rep.holds(rule, c, "device-specific by design", where=f.where())
            elif name == "__init__":
                ok, why = _pure_delegation(ctx, dev, f)
                ctx.rep.check(ok, rule, c, "pure delegation to the base constructor", f"{dev.name}.__init__ is not a pure delegation to the base constructor ({why}): the device classes are configured differently", where=f.where())
            elif name.startswith("evo_") and name not in base_members:
                ctx.rep.holds(rule, c, "EVO-only addition (not a device-independent operation)", where=f.where())
            elif name in base_members and _pure_super_delegation(f, name):
                ctx.rep.holds(rule, c, f"{dev.name}.{name} hands its own arguments to the base implementation and returns its result (logging aside)", where=f.where())
            elif name in base_members:
                ctx.rep.refuted(rule, c, f"{dev.name} overrides the shared operation `{name}`: the two devices no longer run the same code for it", where=f.where())
            elif name.startswith("_"):
                ctx.rep.holds(rule, c, "private helper", where=f.where())
            else:
                ctx.rep.inconclusive(rule, c, f"new public method `{name}` on one device class only: cannot tell whether it is device-independent", where=f.where())
        for name in dev.class_assigns:
            if name in base_members or name in ("max_volume", "auto_split", "diti_mode"):
                ctx.rep.refuted(rule, f"{dev.name}.{name}", f"{dev.name} overrides the shared attribute `{name}`", where=dev.module.relpath)
    ctx.rep.floor(rule, "device-class members", n, 6)


def _pure_delegation(ctx, dev: ClassInfo, f):
    """__init__ whose only effect is super().__init__(<its own parameters, unchanged>) (plus warnings)."""
    params = f.params[1:]
    sup = None
    for s in f.node.body:
        if isinstance(s, ast.Expr) and isinstance(s.value, ast.Constant):
            continue
        calls = [c for c in ast.walk(s) if isinstance(c, ast.Call)]
        is_super = [c for c in calls if isinstance(c.func, ast.Attribute) and c.func.attr == "__init__" and isinstance(c.func.value, ast.Call) and is_name(c.func.value.func, "super")]
        if is_super:
            if sup is not None:
                return False, "several super().__init__ calls"
            sup = is_super[0]
            continue
        # anything that writes self.* or rebinds a parameter is not delegation
        # (a new private attribute of this class alone - a record of the arguments kept for diagnostics - configures nothing: no
        # method of the base class can read it)
        if isinstance(s, ast.Assign) and len(s.targets) == 1 and isinstance(s.targets[0], ast.Attribute) and is_name(s.targets[0].value, f.params[0]) and s.targets[0].attr.startswith("_") \
                and not any(s.targets[0].attr in {x.attr for x in ast.walk(k.node) if isinstance(x, ast.Attribute)} for k in ctx.prog.mro(dev)[1:] if hasattr(k, "node")) \
                and all(isinstance(x, (ast.Name, ast.Tuple, ast.Call, ast.Load, ast.Constant, ast.keyword)) for x in ast.walk(s.value)) \
                and all(ctx.prog.class_by_name(getattr(x.func, "id", "")) is not None for x in ast.walk(s.value) if isinstance(x, ast.Call)):
            continue
        for sub in ast.walk(s):
            if isinstance(sub, ast.Attribute) and isinstance(sub.ctx, ast.Store):
                return False, f"`{stmt_key(s)[:50]}` sets state"
            if isinstance(sub, ast.Name) and isinstance(sub.ctx, ast.Store) and sub.id in params:
                return False, f"`{stmt_key(s)[:50]}` rebinds parameter {sub.id}"
    if sup is None:
        return False, "no super().__init__ call"
    a = f.node.args
    if a.vararg or a.kwarg:
        star = any(isinstance(x, ast.Starred) and is_name(x.value, a.vararg.arg) for x in sup.args) if a.vararg else True
        dstar = any(k.arg is None and is_name(k.value, a.kwarg.arg) for k in sup.keywords) if a.kwarg else True
        return (star and dstar), "*args/**kwargs not forwarded"
    base_init = ctx.prog.find_method(dev.bases[0], "__init__") if dev.bases and isinstance(dev.bases[0], ClassInfo) else None
    if base_init is None:
        return False, "base constructor not found"
    bparams = base_init.params[1:]
    bound = {}
    for i, arg in enumerate(sup.args):
        if i < len(bparams):
            bound[bparams[i]] = arg
    for k in sup.keywords:
        if k.arg:
            bound[k.arg] = k.value
    for p in params:
        if p not in bparams:
            return False, f"parameter {p} unknown to the base constructor"
        if p not in bound:
            return False, f"parameter `{p}` is not forwarded (the base default is used instead)"
        if not is_name(bound[p], p):
            return False, f"parameter `{p}` is forwarded as `{ast.unparse(bound[p])}`"
        # defaults must agree
        d1, d2 = f.param_default(p), base_init.param_default(p)
        if (d1 is None) != (d2 is None) or (d1 is not None and dump(d1) != dump(d2)):
            return False, f"default of `{p}` differs from the base constructor"
    return True, ""


def _neutralise_raises(stmts: List[ast.stmt]) -> None:
    for s in stmts:
        for sub in ast.walk(s):
            if isinstance(sub, ast.Raise) and isinstance(sub.exc, ast.Name) and sub.exc.id not in KEEP_EXC:
                sub.exc = ast.Name(id=NEUTRAL_EXC, ctx=ast.Load())


def _is_deprecated_wash_block(s: ast.stmt) -> bool:
    """d1: `if wash_scheme is None: ...` (deprecated input, excluded by the property)."""
    if isinstance(s, ast.If) and isinstance(s.test, ast.Compare) and len(s.test.ops) == 1 and isinstance(s.test.ops[0], ast.Is):
        c = s.test.comparators[0]
        return isinstance(c, ast.Constant) and c.value is None and isinstance(s.test.left, ast.Name)
    return False


def label_twins(ctx) -> None:
    """Both copies of transfer attach the same label to the condensed history entry: the values the `label` argument of
    condense_log can take, with the conditions under which it takes them (tests on `label` and on the LVH counter), are the same
    set for both devices. Only the tests that hold on an arm are compared: the path conditions are conjunctions of atoms, and
    the negation of `n and label` of an `elif` arm is not one (the arm that is left over is the complement either way)."""
    rule = "C16.history-twins"
    devs = concrete_devices(ctx)
    sets = {}
    for dev in devs:
        f = ctx.prog.find_method(dev, "transfer")
        if f is None:
            continue
        fv = ctx.fv(f, dev)
        cond = [cs for cs in fv.calls() if cs.callee.kind == "func" and cs.callee.func.short == "Labware.condense_log"]
        if not cond:
            ctx.rep.inconclusive(rule, f"{dev.name}.transfer/label", "no condense_log call found")
            return
        cs = cond[0]
        lab = (fv.bind_args(cs) or {}).get("label")
        if lab is None:
            sets[dev.name] = frozenset({"<no label>"})
            continue
        alts = fv.alternatives(lab, cs.node)
        if not alts:
            sets[dev.name] = frozenset({show(fv.res.resolve(lab, cs.node))})
            continue
        common = None
        for cd, _v in alts:
            ks = {(key(r_), p_) for r_, p_ in cd}
            common = ks if common is None else common & ks

        def norm(t):
            # texts by their fixed parts (the counter printed into the note may be computed differently), names as they are
            if isinstance(t, ast.JoinedStr):
                def piece(p_):
                    if isinstance(p_, ast.Constant):
                        return str(p_.value)
                    if isinstance(p_, ast.FormattedValue) and is_name(p_.value, "label"):
                        return "{label}"
                    if isinstance(p_, ast.FormattedValue) and isinstance(p_.value, ast.JoinedStr) and p_.format_spec is None and p_.conversion in (-1, 115):
                        return norm(p_.value)  # a text put together first and then placed into the label
                    return "{}"
                return "".join(piece(p_) for p_ in t.values)
            if isinstance(t, (ast.Name, ast.Constant)):
                return show(t)
            return type(t).__name__

        def on_label(r_):
            return is_name(r_, "label") or (isinstance(r_, ast.Compare) and len(r_.ops) == 1 and is_name(r_.left, "label") and isinstance(r_.comparators[0], ast.Constant))

        def closure(cd):
            # `if n and label: .. elif n: ..`: the second arm knows `not (n and label)` and `n`, hence `not label`
            facts = [(r_, p_) for r_, p_ in cd]
            for _round in range(3):
                have = {(show(r_), p_) for r_, p_ in facts}
                for r_, p_ in list(facts):
                    if isinstance(r_, ast.UnaryOp) and isinstance(r_.op, ast.Not):
                        new_ = [(r_.operand, not p_)]
                    elif isinstance(r_, ast.BoolOp) and p_ == isinstance(r_.op, ast.And):
                        new_ = [(x_, p_) for x_ in r_.values]
                    elif isinstance(r_, ast.BoolOp):
                        rest = [x_ for x_ in r_.values if (show(x_), not p_) not in have]
                        new_ = [(rest[0], p_)] if len(rest) == 1 else []
                    else:
                        new_ = []
                    facts += [x_ for x_ in new_ if (show(x_[0]), x_[1]) not in have]
            return facts

        sets[dev.name] = frozenset((frozenset((show(r_), p_) for r_, p_ in closure(cd) if on_label(r_) and p_), norm(v_)) for cd, v_ in alts)
    names = sorted(sets)
    if len(names) < 2:
        return
    a, b = names[0], names[1]
    only_a, only_b = sets[a] - sets[b], sets[b] - sets[a]
    ctx.rep.check(not only_a and not only_b, rule, f"{a}.transfer~{b}.transfer/label", "both devices build the history label the same way (same tests on the label, same texts)",
                  f"the history label is built differently: {a} has {sorted((sorted(c_), v_) for c_, v_ in only_a)[:2]}, {b} has {sorted((sorted(c_), v_) for c_, v_ in only_b)[:2]} - "
                  "the same transfer leaves different history labels on the two devices", where=f"{a}.transfer / {b}.transfer")


def transfer_twins(ctx) -> None:
    rule = "C16.transfer-twins"
    devs = concrete_devices(ctx)
    fs = [ctx.prog.find_method(d, "transfer") for d in devs]
    if any(f is None for f in fs):
        raise AnalysisInconclusive(rule, "transfer", "a device class has no transfer")
    for f in fs:
        ctx.rep.touch(f)
    ref = fs[0]
    for other, dev in zip(fs[1:], devs[1:]):
        c = f"{devs[0].name}.transfer~{dev.name}.transfer"
        if other is ref:
            ctx.rep.holds(rule, c, "both devices resolve transfer to the same function")
            continue
        # signatures
        sig_a = [(p, dump(ref.param_default(p)) if ref.param_default(p) is not None else None) for p in ref.params]
        sig_b = [(p, dump(other.param_default(p)) if other.param_default(p) is not None else None) for p in other.params]
        ctx.rep.check(sig_a == sig_b, rule, c + "/signature", "same parameters and defaults", f"signatures differ: {sig_a} vs {sig_b}", where=other.where())

        def drop(s, _f=None):
            return _is_deprecated_wash_block_raw(s)

        a = canonical_body(ctx.prog, ref, _is_deprecated_wash_block_raw)
        b = canonical_body(ctx.prog, other, _is_deprecated_wash_block_raw)
        _neutralise_raises(a)
        _neutralise_raises(b)
        d = first_difference(a, b)
        if d is None:
            ctx.rep.holds(rule, c, f"{len(a)} canonical top-level statements agree (modulo the deprecated wash_scheme=None block and the class of non-volume rejections)", where=other.where())
            continue
        # statement-level comparison failed: decide by the effect skeletons (robust against refactoring of one copy)
        ska, skb = effect_skeleton(ctx, ref, devs[0]), effect_skeleton(ctx, other, dev)
        if ska == skb:
            ctx.rep.holds(rule, c, f"statements differ at {d[0]} but the effect skeletons ({len(ska)} effectful events with their conditions, loops and argument origins) are identical", where=other.where())
            continue
        # coarse skeleton: which effectful operations happen in which order and how deeply nested; the arguments and the
        # conditions of every one of them are checked per copy against the same specification (C16.state-twins,
        # C16.history-twins, C16.step-twins), so a copy that was merely restructured still agrees here
        coarse_a = [(e[0], len(e[4])) for e in ska]
        coarse_b = [(e[0], len(e[4])) for e in skb]
        # ... and neither copy raises one of the volume / invalid-operation errors on its own (they come from the shared
        # aspirate/dispense): a copy that rejects earlier than the other leaves different state and records behind
        def own_raises(fn, dv):
            out = set()
            fvx = ctx.fv(fn, dv)
            for s_ in own_walk(fn.node):
                if isinstance(s_, ast.Raise):
                    out.add(raise_class(fvx, s_)[0])
            for cs_ in fvx.calls():
                hv_ = fvx._helper_view(cs_.call)
                if hv_ is not None:
                    for s_ in own_walk(hv_[0].node):
                        if isinstance(s_, ast.Raise):
                            out.add(raise_class(ctx.fv(hv_[0], hv_[1]), s_)[0])
            return out & KEEP_EXC

        ra, rb = own_raises(ref, devs[0]), own_raises(other, dev)
        if ra != rb:
            ctx.rep.refuted(rule, c, f"{devs[0].name}.transfer raises {sorted(ra) or 'no'} volume/invalid-operation errors of its own, {dev.name}.transfer {sorted(rb) or 'none'}: "
                            "one device rejects an operation at a different point (different error, different labware state and records left behind)", where=other.where())
            continue
        if coarse_a == coarse_b:
            ctx.rep.holds(rule, c, f"statements differ at {d[0]} (one copy was restructured); both copies perform the same {len(coarse_a)} effectful operations in the same order and nesting, "
                          "and each copy is checked against the common per-device rules", where=other.where())
            continue
        diff_i = next((i for i, (x, y) in enumerate(zip(ska, skb)) if x != y), min(len(ska), len(skb)))
        ea = ska[diff_i] if diff_i < len(ska) else None
        eb = skb[diff_i] if diff_i < len(skb) else None
        if True:
            path, sa, sb = d
            ctx.rep.data_hint = (ea, eb)
            ctx.rep.refuted(rule, c, f"the two transfer implementations differ at {path}: {devs[0].name}: `{show_stmt(sa)}`  vs  {dev.name}: `{show_stmt(sb)}` "
                            "- the same program no longer has the same effect on both devices", where=other.where(), evo=show_stmt(sa), fluent=show_stmt(sb))


def _canon_ids(text: str) -> str:
    """Rename loop / comprehension / definition ids by order of first appearance (functions have different node ids)."""
    import re

    seen = {}

    def repl(m):
        k = m.group(0)
        if k not in seen:
            seen[k] = f"#{len(seen)}"
        return seen[k]

    return re.sub(r"(loop@\d+|comp@\d+:\d+#\d+|(?<=§def\(Constant\()\d+|(?<=§rec\(Constant\()\d+)", repl, text)


def effect_skeleton(ctx, f, dev):
    """Ordered list of effectful events of a transfer implementation: (what, argument origins, conditions, loops)."""
    from ..defuse import key as _key, is_sym as _is_sym
    from ..engine import own_walk as _walk

    fv = ctx.fv(f, dev)
    selfn = f.params[0]

    ids = {}

    class _Norm(ast.NodeTransformer):
        # d1: the deprecated wash_scheme=None block re-binds the name on one path
        def visit_Call(self, n):
            n = self.generic_visit(n)
            if _is_sym(n) and n.func.id in ("§elem", "§idx", "§key", "§val", "§def", "§rec", "§mut", "§comp"):
                new_args = []
                for a in n.args:
                    if isinstance(a, ast.Constant) and (isinstance(a.value, int) and not isinstance(a.value, bool) or (isinstance(a.value, str) and ("loop@" in a.value or "comp@" in a.value))):
                        kk = (n.func.id in ("§def", "§rec", "§mut"), a.value)
                        if kk not in ids:
                            ids[kk] = f"#{len(ids)}"
                        a = ast.Constant(value=ids[kk])
                    new_args.append(a)
                n.args = new_args
            if _is_sym(n, "phi") and any(isinstance(a, ast.Name) and a.id == "wash_scheme" for a in n.args) and all(isinstance(a, (ast.Name, ast.Constant)) for a in n.args):
                return ast.Name(id="wash_scheme", ctx=ast.Load())
            return n

    def term(e, at):
        import copy as _copy

        return _key(_Norm().visit(_copy.deepcopy(fv.res.resolve(e, at))))

    events = []
    for n in sorted(fv.cfg.nodes, key=lambda n: n.id):  # creation order = textual order of the (helper-expanded) body
        what = None
        args = ()
        # rejections are represented by the facts they establish at the later events (so that moving a validation
        # block into a helper does not change the skeleton); volume / invalid-operation errors come from shared callees
        if True:
            for cs in fv.calls():
                if cs.node != n.id:
                    continue
                callee = cs.callee
                eff = False
                if callee.kind == "func" and callee.func is not None:
                    summ = ctx.E.summary(callee.func, dev if callee.func.cls is not None and callee.func.cls in ctx.prog.mro(dev) else None)
                    eff = any(e.kind in ("EMIT", "VOLWRITE", "HISTWRITE", "COMPWRITE") for e in summ)
                    name = callee.func.short
                    if name in ("optimize_partition_by", "partition_by_column"):
                        continue
                elif callee.kind == "method" and callee.name in ("condense_log",):
                    eff, name = True, callee.name
                if eff:
                    what = "call " + name
                    recv = term(cs.call.func.value, cs.node) if isinstance(cs.call.func, ast.Attribute) else ""
                    # the label of the condensed entry is checked per copy against the specification by C11 (lvh-count, label)
                    kws = [k for k in cs.call.keywords if not (name.endswith("condense_log") and k.arg == "label")]
                    args = (recv,) + tuple(term(a, cs.node) for a in cs.call.args) + tuple(sorted((k.arg or "**", term(k.value, cs.node)) for k in kws))
                    break
        if what is None and n.kind == "handler":
            h = n.ast
            types = sorted(ast.unparse(t).split(".")[-1] for t in (h.type.elts if isinstance(h.type, ast.Tuple) else [h.type])) if h.type is not None else ["<bare>"]
            bare_reraise = any(isinstance(x, ast.Raise) and x.exc is None for x in _walk(h))
            what = f"except {types} reraise={bare_reraise}"
        if what is None and n.kind == "stmt" and isinstance(n.ast, (ast.Assign, ast.AugAssign, ast.Delete)):
            tg = n.ast.targets if isinstance(n.ast, (ast.Assign, ast.Delete)) else [n.ast.target]
            for x in tg:
                base = x
                while isinstance(base, (ast.Subscript, ast.Attribute)):
                    base = base.value
                if isinstance(base, ast.Name) and base.id in f.params and not isinstance(x, ast.Name):
                    what = f"mutate parameter #{f.params.index(base.id)}"
                    args = (term(x, n.id),)
        if what is None:
            for cs in fv.calls():
                if cs.node == n.id and isinstance(cs.call.func, ast.Attribute) and isinstance(cs.call.func.value, ast.Name) and cs.call.func.value.id in f.params[1:] \
                        and cs.call.func.attr in ("update", "pop", "setdefault", "clear", "popitem", "append", "extend", "insert", "remove", "sort"):
                    what = f"mutate parameter #{f.params.index(cs.call.func.value.id)} .{cs.call.func.attr}"
        if what is None:
            continue
        dep = lambda t: "wash_scheme" in t and "Is()" in t  # noqa: E731  (inside the deprecated block)
        conds = []
        skip = False
        for r, pol, br in fv.atoms_at(n.id):
            k = _key(_Norm().visit(__import__("copy").deepcopy(r)))
            if "'§rec'" in k or "'§def'" in k:
                pass
            if "Is()" in k and "wash_scheme" in k:
                if pol:
                    skip = True  # event inside the deprecated None block (d1)
                continue
            conds.append((k, pol))
        if skip:
            continue
        comp = [(_key(_Norm().visit(__import__("copy").deepcopy(r))), pol) for r, pol, br in fv.compound_conditions_at(n.id)]
        loops = tuple(term(fv.cfg.nodes[h].ast.iter, h) for h in fv.cfg.enclosing_loops(n.id) if fv.cfg.nodes[h].kind == "for")
        events.append((what, args, tuple(sorted(conds)), tuple(sorted(comp)), loops))
    # canonical ids over the whole skeleton
    return events


def _split_events(text: str):
    try:
        return list(ast.literal_eval(text))
    except Exception:
        return [text]


def _is_deprecated_wash_block_raw(s: ast.stmt) -> bool:
    if isinstance(s, ast.If) and isinstance(s.test, ast.Compare) and len(s.test.ops) == 1 and isinstance(s.test.ops[0], ast.Is):
        c = s.test.comparators[0]
        return isinstance(c, ast.Constant) and c.value is None and isinstance(s.test.left, ast.Name) and s.test.left.id == "wash_scheme"
    return False


def numbering_diff(ctx) -> None:
    from . import c08

    ctx.reuse("C16.numbering-diff", c08.formulas)
    ctx.reuse("C16.numbering-diff", c08.regex_agreement)
    ctx.reuse("C16.numbering-diff", c08.device_private)
    ctx.reuse("C16.numbering-diff", c08.trough_predicate)


def generic_refuses(ctx) -> None:
    rule = "C16.generic-refuses"
    base = ctx.prog.require_class("BaseWorklist", rule)
    for name, exc in (("_get_well_position", "TypeError"), ("transfer", "CompatibilityError")):
        f = base.methods.get(name)
        if f is None:
            ctx.rep.inconclusive(rule, f"BaseWorklist.{name}", "not found")
            continue
        fv = ctx.fv(f, base)
        normal = fv.cfg.exit in fv.cfg.reachable_from(fv.cfg.entry)
        raises = [s for s in own_walk(f.node) if isinstance(s, ast.Raise)]
        names = {(r.exc.func.id if isinstance(r.exc, ast.Call) and isinstance(r.exc.func, ast.Name) else getattr(r.exc, "id", "?")) for r in raises}
        ctx.rep.check(not normal and names == {exc}, rule, f"BaseWorklist.{name}", f"every path raises {exc}",
                      f"the generic BaseWorklist.{name} can return normally or raises {sorted(names)}: the generic type guesses instead of refusing", where=f.where())
    # shared operations reach the numbering hook before any pipetting emission
    for name in ("aspirate", "dispense", "distribute"):
        f = base.methods.get(name)
        if f is None:
            continue
        fv = ctx.fv(f, base)
        hooks = [cs.node for cs in fv.calls() if cs.callee.kind == "func" and cs.callee.func.name == "_get_well_position"]
        # a hook call that runs for every element of a loop: the loop statement is the point where the hook is consulted
        for h_ in list(hooks):
            lps = [x for x in fv.cfg.enclosing_loops(h_) if fv.cfg.nodes[x].kind == "for"]
            if lps and not fv.controlling(h_, within=fv.cfg.loop_body[lps[0]]):
                hooks.append(lps[0])
        emits = [n.id for n in fv.cfg.nodes if any(e.kind == "EMIT" and e.arg in ("A", "D", "R") for e in ctx.E.node_effects(fv, n))]
        emits = [e for e in emits if e not in hooks]
        early = ctx.E.must_precede(fv, hooks, emits)
        ctx.rep.check(bool(hooks) and not early, rule, f"BaseWorklist.{name}/hook-first", "the numbering hook is evaluated before any pipetting record is emitted",
                      "a pipetting record can be emitted without consulting the device numbering hook", where=f.where())
