"""Analysis of the in-place update loops of Labware.add / Labware.remove (shared by C02, C04, C05, C11)."""
from __future__ import annotations

import ast
from dataclasses import dataclass, field
from typing import Dict, List, Optional, Tuple

from ..canon import Cmp, Poly, to_cmp, to_poly
from ..defuse import is_sym, key, show, strip_norm, sym
from ..engine import FV, Effect
from ..model import AnalysisInconclusive
from .common import attr_of_name, elem_parts, has_unknown

OLD = sym("OLD")  # the element's value before the store


@dataclass
class Store:
    node: int
    stmt: ast.stmt
    target: ast.AST
    element_store: bool
    why_not_element: str = ""
    idx_term: Optional[ast.AST] = None  # resolved subscript
    well_elem: Optional[Tuple[str, ast.AST]] = None  # (loop id, well sequence term) if idx == self.indices[§elem(loop, W)]
    new_poly: Optional[Poly] = None  # stored value with OLD substituted for the pre-store load of the same element
    new_term: Optional[ast.AST] = None
    delta: Optional[Poly] = None  # new - OLD
    loop_head: Optional[int] = None
    stale_writes: List[int] = field(default_factory=list)


def volwrite_nodes(ctx, fv: FV) -> List[int]:
    return [n.id for n in fv.cfg.nodes if any(e.kind == "VOLWRITE" for e in ctx.E.direct(fv, n))]


def analyse_stores(ctx, fv: FV) -> List[Store]:
    selfname = fv.f.params[0]
    out: List[Store] = []
    vol_nodes = volwrite_nodes(ctx, fv)
    for nid in vol_nodes:
        n = fv.cfg.nodes[nid]
        s = n.ast
        targets: List[ast.AST] = []
        if isinstance(s, ast.Assign):
            targets = list(s.targets)
        elif isinstance(s, (ast.AugAssign, ast.AnnAssign)):
            targets = [s.target]
        elif isinstance(s, ast.Delete):
            targets = list(s.targets)
        else:  # mutation through a method call (fill, put, ...)
            out.append(Store(nid, s, s, False, "in-place method call on the volume array"))
            continue
        if not any(_rooted_at_volumes(t) for t in targets):
            # a VOLWRITE that does not name self._volumes: the array is written through a local alias / view
            # (state = self._volumes.ravel(); state[positions] = ...)
            t0 = targets[0] if targets else s
            root = t0
            while isinstance(root, ast.Subscript):
                root = root.value
            st = Store(nid, s, t0, False, f"the volume array is written through the local alias `{ast.unparse(root)[:30]}` (a view, or - for a non-contiguous array - a silent copy) and not by a per-well store self._volumes[<index>]")
            out.append(st)
            continue
        for t in targets:
            if not _rooted_at_volumes(t):
                continue
            st = Store(nid, s, t, True)
            out.append(st)
            if not (isinstance(t, ast.Subscript) and attr_of_name(t.value, selfname, "_volumes")):
                st.element_store = False
                st.why_not_element = "store is not of the form self._volumes[<index>]"
                continue
            sl = t.slice
            if isinstance(sl, ast.Slice) or (isinstance(sl, ast.Tuple) and any(isinstance(e, (ast.Slice, ast.Starred)) for e in sl.elts)) or (
                isinstance(sl, ast.Constant) and sl.value is Ellipsis
            ):
                st.element_store = False
                st.why_not_element = "slice / whole-array store"
                continue
            st.idx_term = fv.res.resolve(sl, nid)
            st.well_elem = _index_of_well(st.idx_term, selfname)
            loops = [h for h in fv.cfg.enclosing_loops(nid) if fv.cfg.nodes[h].kind == "for"]
            st.loop_head = loops[-1] if loops else None
            # value left in the element
            load = ast.Subscript(value=t.value, slice=t.slice, ctx=ast.Load())
            old_key = key(fv.res.resolve(load, nid))

            def opaque(e, _k=old_key):
                return Poly.symbol(OLD) if key(e) == _k else None

            if isinstance(s, ast.AugAssign):
                rhs = fv.res.resolve(s.value, nid)
                if isinstance(s.op, ast.Add):
                    st.new_poly = Poly.symbol(OLD) + to_poly(rhs, opaque)
                elif isinstance(s.op, ast.Sub):
                    st.new_poly = Poly.symbol(OLD) - to_poly(rhs, opaque)
                else:
                    st.new_poly = None
                st.new_term = ast.BinOp(left=OLD, op=s.op, right=rhs)
            elif isinstance(s, (ast.Assign, ast.AnnAssign)) and s.value is not None:
                st.new_term = fv.res.resolve(s.value, nid)
                st.new_poly = to_poly(st.new_term, opaque)
            if st.new_poly is not None:
                st.delta = st.new_poly - Poly.symbol(OLD)
            # other writes of the volume array in the same iteration before this store make pre-store loads stale
            blocked = {st.loop_head} if st.loop_head is not None else set()
            for other in vol_nodes:
                if other != nid and other in fv.cfg.reaching_to(nid, blocked) and (st.loop_head is None or other in fv.cfg.loop_body.get(st.loop_head, ())):
                    st.stale_writes.append(other)
            st._opaque = opaque  # type: ignore[attr-defined]
            st._old_key = old_key  # type: ignore[attr-defined]
    return out


def _rooted_at_volumes(t: ast.AST) -> bool:
    cur = t
    while isinstance(cur, (ast.Subscript, ast.Attribute)):
        if isinstance(cur, ast.Attribute) and cur.attr == "_volumes":
            return True
        cur = cur.value
    return False


def _index_of_well(idx: ast.AST, selfname: str) -> Optional[Tuple[str, ast.AST]]:
    """idx == self.indices[§elem(loop, W)]  /  self._indices[...]  -> (loop, W)"""
    if isinstance(idx, ast.Subscript) and isinstance(idx.value, ast.Attribute) and idx.value.attr in ("indices", "_indices"):
        if isinstance(idx.value.value, ast.Name) and idx.value.value.id == selfname:
            return elem_parts(idx.slice)
    return None


def loop_sequences(fv: FV, head: int) -> List[ast.AST]:
    """Resolved component sequences of `for ... in zip(A, B, ...)` (or the single iterable)."""
    n = fv.cfg.nodes[head]
    it = fv.res.resolve(n.ast.iter, head)
    from ..defuse import Resolver

    parts = Resolver._iter_parts(it)
    if parts is not None and parts[0] == "zip":
        return list(parts[1])
    if parts is not None and parts[0] == "enumerate":
        inner = Resolver._iter_parts(parts[1][0])
        if inner is not None and inner[0] == "zip":
            return list(inner[1])
        return [parts[1][0]]
    if isinstance(it, ast.Call) and getattr(it.func, "id", None) == "range" and len(it.args) == 1 and isinstance(n.ast.target, ast.Name):
        # index loop: the sequences are those subscripted with the loop variable in the body
        var = n.ast.target.id
        seqs: List[ast.AST] = []
        seen = set()
        for i in sorted(fv.cfg.loop_body.get(head, ())):
            m = fv.cfg.nodes[i]
            if m.ast is None:
                continue
            from ..engine import own_walk

            for sub in own_walk(m.ast):
                if isinstance(sub, ast.Subscript) and isinstance(sub.slice, ast.Name) and sub.slice.id == var and isinstance(sub.ctx, ast.Load):
                    base = fv.res.resolve(sub.value, i)
                    if key(base) not in seen:
                        seen.add(key(base))
                        seqs.append(base)
        if seqs:
            return seqs
    return [it]


def loop_sequence_exprs(fv: FV, head: int) -> List[Tuple[int, ast.AST]]:
    """(node, raw expression) of the sequences a loop pairs element-wise: zip arguments, or the sequences that an index loop
    subscripts with its loop variable."""
    n = fv.cfg.nodes[head]
    it = n.ast.iter
    while isinstance(it, ast.Call) and getattr(it.func, "id", None) == "enumerate" and it.args:
        it = it.args[0]
    if isinstance(it, ast.Call) and getattr(it.func, "id", None) == "zip":
        return [(head, a) for a in it.args]
    if isinstance(it, ast.Call) and getattr(it.func, "id", None) == "range" and len(it.args) == 1 and isinstance(n.ast.target, ast.Name):
        from ..engine import own_walk

        var = n.ast.target.id
        out: List[Tuple[int, ast.AST]] = []
        seen = set()
        for i in sorted(fv.cfg.loop_body.get(head, ())):
            m = fv.cfg.nodes[i]
            if m.ast is None:
                continue
            for sub in own_walk(m.ast):
                if isinstance(sub, ast.Subscript) and isinstance(sub.slice, ast.Name) and sub.slice.id == var and isinstance(sub.ctx, ast.Load):
                    k = key(fv.res.resolve(sub.value, i))
                    if k not in seen:
                        seen.add(k)
                        out.append((i, sub.value))
        return out
    return []


def limit_guard(ctx, fv: FV, st: Store, kind: str):
    """Find the dominating guard of a store.  kind = 'add' (upper limit) or 'remove' (lower limit).
    Returns dict(status=..., detail=..., branch=..., raise_cls=...)."""
    selfname = fv.f.params[0]
    limit_attr = "max_volume" if kind == "add" else "min_volume"
    limit = Poly.symbol(ast.Attribute(value=ast.Name(id=selfname, ctx=ast.Load()), attr=limit_attr, ctx=ast.Load()))
    N = st.new_poly
    if kind == "add":
        expected = Cmp(N - limit, ">").negate()  # not (new > max)
    else:
        expected = Cmp(limit - N, ">").negate()  # not (new < min)
    opaque = getattr(st, "_opaque", None)
    near = []
    for atom, pol, branch in fv.facts_at(st.node):
        if not (isinstance(atom, ast.Compare) and len(atom.ops) == 1):
            continue
        r = fv.res.resolve(atom, branch)
        c = to_cmp(r, pol, opaque)
        if c is None:
            continue
        if c == expected:
            # float-exactness: the comparison must be <the very value that is stored> against <the limit itself>;
            # an algebraic rearrangement (volume > max - old) rounds differently and lets one-ulp overshoots through
            sides = [r.left, r.comparators[0]]
            lim_k = key(ast.Attribute(value=ast.Name(id=selfname, ctx=ast.Load()), attr=limit_attr, ctx=ast.Load()))
            old_k = getattr(st, "_old_key", None)
            exact = st.new_term is not None and any(
                key(a) == lim_k and float_key(b, old_k) == float_key(st.new_term, old_k) for a, b in (sides, sides[::-1]))
            return {"status": "match" if exact else "inexact", "branch": branch, "polarity": pol, "atom": atom, "canon": c.pretty(),
                    "expected": expected.pretty()}
        syms = set(c.poly.symbols())
        if set(limit.symbols()) & syms or key(OLD) in syms:
            near.append((c, atom, pol, branch))
    if near:
        c, atom, pol, branch = near[0]
        return {"status": "different", "branch": branch, "polarity": pol, "atom": atom, "canon": c.pretty(), "expected": expected.pretty()}
    return {"status": "missing", "expected": expected.pretty()}


def float_key(t: ast.AST, old_key: Optional[str]) -> str:
    """Structural key of a float computation: equal keys <=> the same IEEE operations on the same operands
    (operands of a single + or * may be swapped; nothing is re-associated or moved across the comparison)."""
    if old_key is not None and key(t) == old_key:
        return key(OLD)
    if isinstance(t, ast.BinOp):
        a, b = float_key(t.left, old_key), float_key(t.right, old_key)
        if isinstance(t.op, (ast.Add, ast.Mult)) and b < a:
            a, b = b, a
        return f"({a} {type(t.op).__name__} {b})"
    if isinstance(t, ast.UnaryOp):
        return f"({type(t.op).__name__} {float_key(t.operand, old_key)})"
    return key(t)
