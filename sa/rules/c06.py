"""C06 - large-volume handling: splitting is complete, bounded and minimal (wiring, iteration space, provenance)."""
from __future__ import annotations

import ast
from typing import List, Optional

from ..canon import Cmp, Poly, to_cmp, to_poly
from ..defuse import is_sym, key, show, strip_norm
from ..engine import own_walk
from ..model import AnalysisInconclusive
from .common import attr_of_name, call_fname, concrete_devices, elem_parts, is_name, stmt_key

EXPLANATION = (
    "C06: (wiring) both transfer copies build the per-well lists with partition_volume(float(v), max_volume=self.max_volume) "
    "exactly when self.auto_split, else [v]; device constructors forward auto_split/max_volume unchanged. (iteration space) "
    "the emission nest visits l[p] for p in range(max(len(l))) guarded by len(l) > p with no early exit. (provenance) in "
    "partition_volume the step count is ceil(volume/max_volume), every non-final step is an upward rounding or the exact "
    "quotient (>= volume/steps) and carries a proven <= max_volume (override-under-guard or min(., max_volume)); the final "
    "element is the remainder volume - sum(previous), capped by max_volume; [] only for volume == 0, [volume] only under "
    "volume <(=) max_volume. reagent_distribution reduces multi_disp by floor(max_volume/volume) under the overflow test. "
    "The arithmetic for all floats (count = max(1, ceil), positivity of the last step) is NOT decided."
)
ASSUMPTIONS = ["math.ceil(x) >= x, math.floor(x) <= x, min(x, m) <= m", "volume/steps <= max_volume because steps = ceil(volume/max_volume) (real arithmetic)"]


def run(ctx) -> None:
    from . import c03, c07, c16

    for dev in concrete_devices(ctx):
        ctx.guard("C06.wiring", wiring, dev)
        ctx.guard("C06.iteration-space", iteration_space, dev)
        ctx.guard("C06.never-too-large", never_too_large, dev)
        # every step of the split list that is pipetted gets its A and its D record (exactly the steps with v > 0)
        from . import c01

        for meth, track, kind in (("aspirate", "remove", "A"), ("dispense", "add", "D")):
            ctx.reuse("C06.iteration-space", c01.pair_ad, dev, meth, track, kind)
    ctx.reuse("C06.wiring", c16.override_set)
    ctx.reuse("C06.step-guard", c03.step_guard_validator)
    ctx.reuse("C06.step-guard", c03.step_guard_wiring)
    ctx.reuse("C06.step-guard", c03.step_guard_evo)
    from . import c02

    ctx.reuse("C06.step-guard", c02.no_swallow)
    ctx.guard("C06.partition", partition_volume)
    from .common import memo_rule

    # the step list of one call is that call's own: a cached partition_volume hands one list to every caller
    ctx.guard("C06.partition", memo_rule, "C06.partition/no-cache", ("worklists/utils.py", "worklists/base.py", "evotools/worklist.py", "fluenttools/worklist.py"))
    # a split transfer is not refused for being too large: the record validator takes every volume up to the format's limit
    from . import c09 as _c09

    ctx.reuse("C06.step-guard", _c09.validator_numbers)
    ctx.guard("C06.multi-disp", multi_disp)
    # ... and the volume the reduction was computed from is the volume the record carries (multi_disp * <printed volume>)
    from . import c09

    ctx.reuse("C06.multi-disp", c09.r_slots)
    ctx.guard("C06.config", config)
    from .common import class_state_rule

    ctx.guard("C06.config", class_state_rule, "C06.config", ("BaseWorklist", "EvoWorklist", "FluentWorklist"), "max_volume / auto_split / device")
    from . import objmodel

    ctx.guard("C06.config", objmodel.worklist_model, "C06.config")
    ctx.guard("C06.no-refusal", objmodel.unique_classes, "C06.no-refusal", ("InvalidOperationError",),
              "`except robotools.InvalidOperationError` does not catch the refusal that the step guard raises (or catches something else)")


def config(ctx) -> None:
    """The limit and the splitting switch the user configured are the ones every later decision reads:
    self.max_volume / self.auto_split are stored once, in a worklist constructor, as the unmodified parameter."""
    rule = "C06.config"
    base = ctx.prog.require_class("BaseWorklist", rule)
    ctor_stores(ctx, rule, ("max_volume", "auto_split"), 2)
    binit = ctx.prog.find_method(base, "__init__")
    _forwarding(ctx, rule, base, binit, ("max_volume", "auto_split"))


def ctor_stores(ctx, rule: str, attrs, floor: int) -> None:
    """The named settings of a worklist are stored once, in a worklist constructor, as the unmodified parameter."""
    base = ctx.prog.require_class("BaseWorklist", rule)
    n_stores = 0
    for f in ctx.prog.all_functions():
        for st in own_walk(f.node):
            if not isinstance(st, (ast.Assign, ast.AugAssign, ast.AnnAssign)):
                continue
            tgts = st.targets if isinstance(st, ast.Assign) else [st.target]
            for t in tgts:
                if not (isinstance(t, ast.Attribute) and t.attr in attrs):
                    continue
                fv = ctx.fv(f)
                recv = fv.env.get(t.value.id) if isinstance(t.value, ast.Name) else None
                if recv is None or base not in ctx.prog.mro(recv):
                    continue
                n_stores += 1
                ctx.rep.touch(f)
                c = f"{f.qualname}/{stmt_key(st)[:50]}"
                w = f.where(st)
                if f.name != "__init__" or isinstance(st, ast.AugAssign) or st.value is None:
                    ctx.rep.refuted(rule, c, f"`{stmt_key(st)[:60]}` changes the configured {t.attr} outside the constructor: later steps are split/checked against a limit the user did not set", where=w)
                    continue
                val = fv.res.resolve(st.value, fv.node_of(st.value))
                core = val
                while isinstance(core, ast.Call) and call_fname(core) in ("float", "bool") and len(core.args) == 1:
                    core = core.args[0]
                if is_name(core, t.attr) and t.attr in f.params:
                    ctx.rep.holds(rule, c, f"stores the {t.attr} parameter unchanged", where=w)
                elif any(isinstance(x, ast.Call) and call_fname(x) in ("int", "round", "floor", "ceil", "trunc", "min", "max", "abs", "around", "rint") for x in ast.walk(val)) or isinstance(val, ast.Constant):
                    ctx.rep.refuted(rule, c, f"the constructor stores `{show(val)[:60]}` instead of the {t.attr} the user configured: splitting and limit checks use a different limit "
                                    "(more steps than necessary, or a zero limit)", where=w)
                elif isinstance(val, (ast.Compare, ast.BoolOp)) or (isinstance(val, ast.UnaryOp) and isinstance(val.op, ast.Not)):
                    ctx.rep.refuted(rule, c, f"the constructor stores the outcome of the test `{show(val)[:60]}` instead of the {t.attr} the user configured: values that mean the same "
                                    "(1, numpy.bool_, numpy numbers) are read as something else", where=w)
                else:
                    ctx.rep.inconclusive(rule, c, f"cannot relate the stored `{show(val)[:60]}` to the {t.attr} parameter", where=w)
    ctx.rep.floor(rule, f"stores of {' / '.join(attrs)} on worklists", n_stores, floor)


def _forwarding(ctx, rule: str, base, binit, attrs) -> None:
    for dev in concrete_devices(ctx):
        f = ctx.prog.find_method(dev, "__init__")
        if f is None or f is binit:
            continue
        fv = ctx.fv(f, dev)
        sup = [cs for cs in fv.calls() if cs.callee.kind == "func" and cs.callee.func is binit]
        c = f"{dev.name}.__init__->BaseWorklist.__init__"
        if len(sup) != 1:
            ctx.rep.inconclusive(rule, c, f"expected one call of the base constructor, found {len(sup)}", where=f.where())
            continue
        call = sup[0].call
        fa = f.node.args
        forwards_all = fa.vararg is not None and fa.kwarg is not None and any(isinstance(a, ast.Starred) and is_name(a.value, fa.vararg.arg) for a in call.args) \
            and any(k.arg is None and is_name(k.value, fa.kwarg.arg) for k in call.keywords)
        if forwards_all and not (set(attrs) & set(f.params)):
            ctx.rep.holds(rule, c, "forwards *args/**kwargs unchanged", where=f.where(call))
            continue
        b = fv.bind_args(sup[0]) or {}
        for attr in attrs:
            v = fv.res.resolve(b[attr], sup[0].node) if attr in b else None
            ok = v is not None and is_name(v, attr) and attr in f.params
            ctx.rep.check(ok, rule, f"{c}/{attr}", f"passes its {attr} parameter on unchanged",
                          f"the base constructor receives {attr}=`{show(v)[:50] if v is not None else 'its default'}` instead of the {attr} the user gave to {dev.name}", where=f.where(call))


class _Cand:
    """The statement that defines the list of per-well step lists (comprehension form or `L = []` of the loop form)."""

    def __init__(self, node, name, it, var, alts, filtered, at):
        self.ast, self.id = node.ast, node.id
        self.name, self.iter, self.var, self.alts, self.filtered, self.at = name, it, var, alts, filtered, at


def _vol_lists(ctx, dev, rule):
    """(transfer structure, [candidate definitions of the per-well step lists])
    comprehension:  L = [<elt> for v in vols]          loop:  L = [];  for v in vols: ... L.append(<elt>)"""
    from .c07 import transfer_structure

    t = transfer_structure(ctx, dev, rule)
    fv = t.fv
    gbody = fv.cfg.loop_body[t.G]
    out = []
    for n in (fv.cfg.nodes[i] for i in sorted(gbody)):
        if not (n.kind == "stmt" and isinstance(n.ast, ast.Assign) and len(n.ast.targets) == 1 and isinstance(n.ast.targets[0], ast.Name)):
            continue
        name = n.ast.targets[0].id
        v = n.ast.value
        if isinstance(v, ast.ListComp) and any(isinstance(s_, ast.Call) and call_fname(s_) == "partition_volume" for s_ in ast.walk(v)) and len(v.generators) == 1:
            g = v.generators[0]
            var = g.target.id if isinstance(g.target, ast.Name) else None
            alts = []
            if isinstance(v.elt, ast.IfExp):
                alts = [([(v.elt.test, True)], v.elt.body), ([(v.elt.test, False)], v.elt.orelse)]
            else:
                alts = [([], v.elt)]
            out.append(_Cand(n, name, g.iter, var, alts, bool(g.ifs), n.id))
        elif (isinstance(v, ast.List) and not v.elts) or (isinstance(v, ast.Call) and call_fname(v) == "list" and not v.args):
            apps = [cs for cs in fv.calls() if cs.node in gbody and isinstance(cs.call.func, ast.Attribute) and cs.call.func.attr == "append" and is_name(cs.call.func.value, name) and len(cs.call.args) == 1]
            if not apps or not any(isinstance(s_, ast.Call) and call_fname(s_) == "partition_volume" for cs in apps for s_ in ast.walk(cs.call.args[0])):
                continue
            loops = {tuple(fv.cfg.enclosing_loops(cs.node)) for cs in apps}
            if len(loops) != 1:
                continue
            chain = list(loops.pop())
            if len(chain) != 2 or chain[0] != t.G or fv.cfg.nodes[chain[1]].kind != "for" or chain[1] in (t.P, t.Z):
                continue
            lp = fv.cfg.nodes[chain[1]]
            var = lp.ast.target.id if isinstance(lp.ast.target, ast.Name) else None
            lbody = fv.cfg.loop_body[lp.id]
            alts = []
            for cs in apps:
                conds = [(fv.cfg.nodes[d].ast, pol) for d, pol in fv.controlling(cs.node, within=lbody, skip_raising=True)]
                alts.append((conds, cs.call.args[0]))
            jumps = [m for m in (fv.cfg.nodes[i] for i in lbody) if m.kind == "stmt" and isinstance(m.ast, (ast.Break, ast.Continue, ast.Return))]
            # exactly one append per iteration: the append conditions are the two outcomes of one test, or a single unconditional append
            once = (len(alts) == 1 and not alts[0][0]) or (len(alts) == 2 and len(alts[0][0]) == 1 and len(alts[1][0]) == 1 and alts[0][0][0][0] is alts[1][0][0][0] and alts[0][0][0][1] != alts[1][0][0][1])
            out.append(_Cand(n, name, lp.ast.iter, var, alts, bool(jumps) or not once, lp.id))
    return t, out


def keyed_by_wells(ctx, dev, rule: str) -> bool:
    """Per-step data (the split lists of a volume) kept in a dict whose keys are well IDs / (source, destination) pairs: a well or
    pair that is listed more than once in one call shares one entry - its steps, its volume or its count are those of the last
    occurrence only.  -> True when such a dict was found (and refuted)."""
    from .c07 import transfer_structure

    t = transfer_structure(ctx, dev, rule)
    fv, f = t.fv, t.f
    hit = False
    for n in fv.cfg.nodes:
        if n.kind != "stmt" or n.ast is None:
            continue
        for sub in own_walk(n.ast):
            if not isinstance(sub, ast.DictComp):
                continue
            term = fv.res.resolve(sub, n.id)
            if not (is_sym(term, "comp") and len(term.args) >= 3):
                continue
            # §comp('DictComp', key, value, gen...) - find elements of the well arguments in the key and the volumes in the value
            keyt = term.args[1]
            rest = list(term.args[2:])
            def bases(e):
                out = set()
                for x in ast.walk(e):
                    if is_sym(x, "elem") and len(x.args) >= 2:
                        b = strip_norm(x.args[1])
                        for y in ast.walk(b):
                            if isinstance(y, ast.Name):
                                out.add(y.id)
                return out
            kb = bases(keyt)
            vb = set().union(*[bases(r_) for r_ in rest]) if rest else set()
            if kb & {"source_wells", "destination_wells"} and ("volumes" in vb or any(isinstance(x, ast.Call) and call_fname(x) == "partition_volume" for r_ in rest for x in ast.walk(r_))):
                hit = True
                ctx.rep.refuted(rule, f"{dev.name}.transfer/keyed-by-wells", f"`{show(sub)[:70]}` keeps the step data of a transfer in a dict keyed by well IDs ({sorted(kb & {'source_wells', 'destination_wells'})}): a well / "
                                "pair that is listed more than once shares one entry, so its steps (and the counted LVH steps) are those of its last occurrence only", where=f.where(sub))
    return hit


def wiring(ctx, dev) -> None:
    rule = "C06.wiring"
    if keyed_by_wells(ctx, dev, rule):
        return
    t, cands = _vol_lists(ctx, dev, rule)
    fv, f = t.fv, t.f
    cb = f"{dev.name}.transfer"
    if not cands:
        # keyed containers lose repeated entries: {(s, d): partition_volume(..) ...} / dict(zip(..)) of the step lists
        gbody = fv.cfg.loop_body[t.G]
        for n in (fv.cfg.nodes[i] for i in sorted(gbody)):
            if n.kind == "stmt" and isinstance(n.ast, ast.Assign) and any(isinstance(s_, ast.Call) and call_fname(s_) == "partition_volume" for s_ in ast.walk(n.ast.value)) and (
                    isinstance(n.ast.value, (ast.DictComp, ast.SetComp)) or (isinstance(n.ast.value, ast.Call) and call_fname(n.ast.value) in ("dict", "set"))):
                ctx.rep.refuted(rule, cb + "/vol-lists", f"`{stmt_key(n.ast)[:70]}` keeps the per-well step lists in a keyed container: when a (source, destination) pair or well is listed twice "
                                "in one transfer, only the last requested volume is pipetted", where=f.where(n.ast))
                return
    if len(cands) != 1:
        ctx.rep.check(None if not cands else False, rule, cb + "/vol-lists", "", f"expected one list of per-well volume lists built with partition_volume, found {len(cands)}", where=f.where())
        return
    cd = cands[0]
    w = f.where(cd.ast)
    selfn = f.params[0]
    it = fv.res.resolve(cd.iter, cd.at)
    ok_it = is_sym(it, "item") and isinstance(it.args[1], ast.Constant) and it.args[1].value == 2 and not cd.filtered
    ctx.rep.check(ok_it, rule, cb + "/over-volumes", "one list per volume of the column group (component 2), none filtered",
                  f"the per-well lists are built over `{show(it)[:60]}` (filtered or not the group's volumes)", where=w)
    var = cd.var
    ok = False
    detail = f"element is `{show(cd.alts[0][1])[:80]}`" if cd.alts else "no element"
    split = plain = None
    bad_test = None
    for conds, elt in cd.alts:
        if len(conds) != 1:
            bad_test = conds
            continue
        test, pol = conds[0]
        neg = isinstance(test, ast.UnaryOp) and isinstance(test.op, ast.Not)
        core = test.operand if neg else test
        if not attr_of_name(core, selfn, "auto_split"):
            bad_test = [(test, pol)]
            continue
        if pol != neg:
            split = elt
        else:
            plain = elt
    if bad_test is not None and bad_test:
        detail = f"splitting is decided by `{show(bad_test[0][0])[:50]}` instead of self.auto_split"
    elif split is not None and plain is not None:
        ok_plain = isinstance(plain, ast.List) and len(plain.elts) == 1 and is_name(plain.elts[0], var)
        ok_split = False
        if isinstance(split, ast.Call) and call_fname(split) == "partition_volume":
            arg0 = split.args[0] if split.args else None
            while isinstance(arg0, ast.Call) and call_fname(arg0) == "float" and arg0.args:
                arg0 = arg0.args[0]
            mv = [k.value for k in split.keywords if k.arg == "max_volume"]
            ok_split = is_name(arg0, var) and len(mv) == 1 and attr_of_name(mv[0], selfn, "max_volume")
            if not ok_split:
                detail = f"partition_volume is called as `{show(split)[:70]}`; expected partition_volume(<the volume>, max_volume=self.max_volume)"
        if not ok_plain:
            detail = f"without auto_split the step list is `{show(plain)[:40]}`; expected the single requested volume"
        ok = ok_plain and ok_split
    ctx.rep.check(ok, rule, cb + "/auto-split", "auto_split ? partition_volume(v, max_volume=self.max_volume) : [v]", detail, where=w)


def _volume_atoms(ctx, fv, e: ast.AST, pol: bool, subject, depth: int = 0):
    """(Compare, polarity) atoms of a guard over the requested volumes: looks through not / and / or / all / any / bool,
    generator expressions and map(<predicate helper>, volumes), and calls of predicate helpers (single return)."""
    if isinstance(e, ast.UnaryOp) and isinstance(e.op, ast.Not):
        yield from _volume_atoms(ctx, fv, e.operand, not pol, subject, depth)
    elif isinstance(e, ast.BoolOp):
        for v in e.values:
            yield from _volume_atoms(ctx, fv, v, pol, subject, depth)
    elif isinstance(e, ast.Compare):
        left = e.left
        for op, right in zip(e.ops, e.comparators):
            yield ast.Compare(left=left, ops=[op], comparators=[right]), pol, subject
            left = right
    elif isinstance(e, (ast.GeneratorExp, ast.ListComp)) and len(e.generators) == 1:
        g = e.generators[0]
        sub = set(subject)
        if isinstance(g.target, ast.Name) and _mentions(g.iter, subject):
            sub.add(g.target.id)
        for c in [e.elt] + list(g.ifs):
            yield from _volume_atoms(ctx, fv, c, pol, frozenset(sub), depth)
    elif isinstance(e, ast.Call):
        fn = call_fname(e)
        if fn in ("all", "any", "bool") and (e.args or isinstance(e.func, ast.Attribute)):
            yield from _volume_atoms(ctx, fv, e.args[0] if e.args else e.func.value, pol, subject, depth)
        elif fn == "map" and len(e.args) == 2 and isinstance(e.args[0], (ast.Name, ast.Attribute)) and depth < 3:
            call = ast.Call(func=e.args[0], args=[ast.Name(id="§v", ctx=ast.Load())], keywords=[])
            sub = frozenset(set(subject) | {"§v"}) if _mentions(e.args[1], subject) else subject
            yield from _volume_atoms(ctx, fv, call, pol, sub, depth)
        elif depth < 3:
            callee = ctx.prog.resolve_call(fv.f, e, fv.env)
            g = callee.func if callee.kind == "func" else None
            if g is None:
                return
            rets = [r for r in ast.walk(g.node) if isinstance(r, ast.Return) and r.value is not None]
            if len(rets) != 1:
                return
            pos = [p for p in g.params]
            if g.cls is not None and pos:
                pos = pos[1:]
            sub = set()
            for i, a in enumerate(e.args):
                if i < len(pos) and _mentions(a, subject):
                    sub.add(pos[i])
            for kw in e.keywords:
                if kw.arg and _mentions(kw.value, subject):
                    sub.add(kw.arg)
            if sub:
                gv = ctx.fv(g)
                rt = gv.res.resolve(rets[0].value, gv.node_of(rets[0].value))
                yield from _volume_atoms(ctx, gv, rt, pol, frozenset(sub), depth + 1)


def _mentions(e: ast.AST, names) -> bool:
    return any(isinstance(s_, ast.Name) and s_.id in names for s_ in ast.walk(e))


def never_too_large(ctx, dev) -> None:
    """With auto_split a transfer is never refused because a requested volume is large: no guard that is evaluated before
    the pipetting loops bounds the requested volumes from above (the only volume conditions there are sign / NaN checks).
    A refusal that is conditional on `not self.auto_split` is the documented behaviour and not reported."""
    from .c07 import transfer_structure

    rule = "C06.never-too-large"
    t = transfer_structure(ctx, dev, rule)
    fv, f = t.fv, t.f
    cb = f"{dev.name}.transfer"
    selfn = f.params[0]
    n_guards = 0
    for gn, test, pol_raise, r in fv.raising_guards():
        if not (fv.cfg.dominates(gn.id, t.G) or gn.id not in fv.cfg.loop_body[t.G]):
            continue
        if gn.id in fv.cfg.loop_body[t.G]:
            continue
        rt = fv.res.resolve(test, gn.id)
        if not _mentions(rt, {"volumes"}):
            continue
        n_guards += 1
        ctrl = [fv.cfg.nodes[d].ast for d, _ in fv.controlling(gn.id, skip_raising=True)]
        conditional = any(attr_of_name(s_, selfn, "auto_split") for c in [rt] + ctrl for s_ in ast.walk(c))
        bad = None
        for cmp_, pol, subject in _volume_atoms(ctx, fv, rt, not pol_raise, frozenset({"volumes"})):
            a, b, op = cmp_.left, cmp_.comparators[0], cmp_.ops[0]
            if not isinstance(op, (ast.Lt, ast.LtE, ast.Gt, ast.GtE)):
                continue
            va, vb = _mentions(a, subject), _mentions(b, subject)
            if va == vb:
                continue
            less = isinstance(op, (ast.Lt, ast.LtE))
            # the relation that holds when the guard is passed, oriented as  volume <rel> bound
            upper = (less == pol) if va else (less != pol)
            if upper:
                bad = (cmp_, b if va else a)
        c = f"{cb}/guard[{show(test)[:40]}]"
        if bad is not None and not conditional:
            ctx.rep.refuted(rule, c, f"the up-front check `{show(test)[:60]}` refuses requested volumes above `{show(bad[1])[:30]}` before they are split: "
                            "with auto_split a transfer must never be refused for being too large", where=f.where(gn.ast))
        else:
            ctx.rep.holds(rule, c, "no upper bound on the requested volumes" if bad is None else "refusal is conditional on auto_split", where=f.where(gn.ast))
    ctx.rep.floor(rule, f"{cb}: up-front guards over the requested volumes", n_guards, 1)


def iteration_space(ctx, dev) -> None:
    rule = "C06.iteration-space"
    t, cands = _vol_lists(ctx, dev, rule)
    fv, f = t.fv, t.f
    cb = f"{dev.name}.transfer"
    if len(cands) != 1:
        ctx.rep.inconclusive(rule, cb, "list of per-well volume lists not found")
        return
    L = cands[0].name
    P, Z = fv.cfg.nodes[t.P], fv.cfg.nodes[t.Z]
    w = f.where(P.ast)
    # outer: range(max(len(l) for l in L))
    pit = fv.res.resolve(P.ast.iter, t.P)
    ok_p = False
    if isinstance(pit, ast.Call) and call_fname(pit) == "range" and len(pit.args) == 1:
        n = pit.args[0]
        if isinstance(n, ast.Call) and call_fname(n) == "max" and len(n.args) == 1:
            a = n.args[0]
            if isinstance(a, ast.Call) and call_fname(a) == "map" and len(a.args) == 2 and is_name(a.args[0], "len"):
                ok_p = key(a.args[1]) == key(fv.res.resolve(ast.Name(id=L, ctx=ast.Load()), t.P))
            elif is_sym(a, "comp"):
                elt, gen = a.args[1], a.args[2]
                ok_p = call_fname(elt) == "len" and is_sym(gen, "gen") and len(gen.args) == 1 and key(gen.args[0]) == key(fv.res.resolve(ast.Name(id=L, ctx=ast.Load()), t.P))
    ctx.rep.check(ok_p, rule, cb + "/partitions", "partition loop runs over range(max(len(l) for l in vol_lists))",
                  f"partition loop iterates `{show(pit)[:80]}`; expected range(max(len(l) for l in <per-well lists>)): steps at the end (or start) of the lists are never emitted", where=w)
    # inner: zip(srcs, dsts, L)
    zit = Z.ast.iter
    ok_z = isinstance(zit, ast.Call) and call_fname(zit) == "zip" and len(zit.args) == 3 and (is_name(zit.args[2], L) or is_name(fv.alias_root(zit.args[2], t.Z), L))
    ctx.rep.check(ok_z, rule, cb + "/rows", "row loop zips sources, destinations and the per-well lists", f"row loop iterates `{show(zit)[:60]}`", where=f.where(Z.ast))
    # element access l[p] under len(l) > p
    v = fv.res.resolve((fv.bind_args(t.A) or {})["volumes"], t.A.node)
    ok_v = False
    if isinstance(v, ast.Subscript):
        le, pe = elem_parts(v.value), elem_parts(v.slice)
        ok_v = le is not None and pe is not None and le[0] == f"loop@{t.Z}" and pe[0] == f"loop@{t.P}"
    # §elem rewrite turns l[p] into an element of ... only for index loops over the same sequence; here p indexes each list
    ctx.rep.check(ok_v, rule, cb + "/element", "the step volume is <list of this row>[<partition index>]",
                  f"the step volume is `{show(v)[:80]}`; expected <per-well list of this row>[<partition counter>]", where=f.where(t.A.call))
    zbody = fv.cfg.loop_body[t.Z]
    ok_g = False
    bad = ""
    if ok_v:
        lst, p = Poly.symbol(ast.Call(func=ast.Name(id="len", ctx=ast.Load()), args=[v.value], keywords=[])), Poly.symbol(v.slice)
        for r, pol, br in fv.atoms_at(t.A.node, within=zbody, skip_raising=True):
            cm = to_cmp(r, pol)
            if cm is None:
                continue
            if cm == Cmp(lst - p, ">") or cm == Cmp(lst - p - Poly.const(1), ">="):
                ok_g = True
            elif isinstance(r, ast.Compare) and any(call_fname(x) == "len" for x in [r.left] + list(r.comparators)):
                bad = cm.pretty()
    ctx.rep.check(ok_g, rule, cb + "/bounds", "l[p] is read exactly when len(l) > p",
                  f"the element access is guarded by `{bad}`; expected len(l) - p > 0 (the last element would be skipped, or an IndexError raised)" if bad else "no guard len(l) > p dominates the element access", where=f.where(t.A.call))
    gbody = fv.cfg.loop_body[t.G]
    exits = [n for n in (fv.cfg.nodes[i] for i in gbody) if n.kind == "stmt" and isinstance(n.ast, (ast.Break, ast.Return))]
    # `continue` is a guard clause: what it skips is exactly what the filter atoms of the step (C07.step-block/filter) allow
    ctx.rep.check(not exits, rule, cb + "/no-exit", "no break/return inside the emission nest", "an early exit (break/return) inside the emission nest drops steps", where=f.where(exits[0].ast) if exits else w)


# --------------------------------------------------------------------------- partition_volume
def partition_volume(ctx) -> None:
    rule = "C06.partition"
    from .common import buffer_dtype_rule

    if buffer_dtype_rule(ctx, rule, ("partition_volume",)) == 0:
        ctx.rep.holds(rule, "partition_volume/no-typed-buffer", "the step list is not kept in a numpy buffer that takes its dtype from the first step")
    f = ctx.prog.require_func("partition_volume", rule)
    fv = ctx.fv(f)
    V, M = ast.Name(id="volume", ctx=ast.Load()), ast.Name(id="max_volume", ctx=ast.Load())
    pv, pm = Poly.symbol(V), Poly.symbol(M)
    rets = [n for n in fv.cfg.nodes if n.kind == "stmt" and isinstance(n.ast, ast.Return) and n.ast.value is not None]
    n_list = 0
    for rn in rets:
        val = fv.alias_root(rn.ast.value, rn.id)
        if isinstance(val, ast.Name):
            raw, at = fv.def_expr(val, rn.id)
            # a list that is only defined (never appended to) is just a temporary for its literal
            mutated = any(isinstance(cs.call.func, ast.Attribute) and cs.call.func.attr in ("append", "extend", "insert") and is_name(cs.call.func.value, val.id) for cs in fv.calls())
            if isinstance(raw, ast.List) and not mutated:
                val = raw
        c = f"{f.qualname}/return[{stmt_key(val)[:30]}]"
        w = f.where(rn.ast)
        facts = [(to_cmp(r, pol), raw) for r, pol, raw in fv.rfacts_at(rn.id) if isinstance(r, ast.Compare) and len(r.ops) == 1]
        cms = [c_ for c_, _ in facts if c_ is not None]
        if isinstance(val, ast.List) and not val.elts:
            ctx.rep.check(Cmp(pv, "==") in cms, rule, c, "empty list only for volume == 0", "an empty step list is returned for a non-zero volume: the liquid is never moved", where=w)
            continue
        if isinstance(val, ast.List) and len(val.elts) == 1 and is_name(val.elts[0], "volume"):
            ok = Cmp(pm - pv, ">") in cms or Cmp(pm - pv, ">=") in cms
            ctx.rep.check(ok, rule, c, "[volume] only when volume <(=) max_volume", "the unsplit volume is returned without establishing volume <= max_volume", where=w)
            continue
        if isinstance(val, ast.Name):
            n_list += 1
            _check_list(ctx, rule, fv, f, rn, val.id, pv, pm)
            continue
        ctx.rep.inconclusive(rule, c, f"unrecognised return shape `{show(val)[:60]}`", where=w)
    ctx.rep.floor(rule, "split-list returns", n_list, 1)


def _check_list(ctx, rule, fv, f, rn, lname: str, pv: Poly, pm: Poly) -> None:
    """volumes = [step] * (n - 1); volumes.append(<remainder>)"""
    w = f.where(rn.ast)
    inits = [n for n in fv.cfg.nodes if n.kind == "stmt" and isinstance(n.ast, (ast.Assign, ast.AnnAssign)) and is_name(n.ast.targets[0] if isinstance(n.ast, ast.Assign) else n.ast.target, lname)]
    apps = [cs for cs in fv.calls() if isinstance(cs.call.func, ast.Attribute) and cs.call.func.attr in ("append", "extend", "insert") and is_name(cs.call.func.value, lname)]
    if len(inits) != 1 or len(apps) != 1 or apps[0].call.func.attr != "append":
        ctx.rep.inconclusive(rule, f"{f.qualname}/list", f"expected `{lname} = [step] * (n - 1)` followed by one append of the remainder", where=w)
        return
    init, app = inits[0], apps[0]
    iv = init.ast.value
    if not (isinstance(iv, ast.BinOp) and isinstance(iv.op, ast.Mult)):
        ctx.rep.inconclusive(rule, f"{f.qualname}/list", f"initial list `{show(iv)[:50]}` is not [step] * count", where=w)
        return
    lst, cnt = (iv.left, iv.right) if isinstance(iv.left, ast.List) else (iv.right, iv.left)
    if not (isinstance(lst, ast.List) and len(lst.elts) == 1):
        ctx.rep.inconclusive(rule, f"{f.qualname}/list", "initial list is not a one-element list times a count", where=w)
        return
    step_expr = lst.elts[0]
    # ---- number of steps: ceil(volume / max_volume)
    cnt_t = fv.res.resolve(cnt, init.id)
    nsteps_t = None
    pc = to_poly(cnt_t)
    for s in pc.symbols():
        pass
    # count must be n - 1 with n = ceil(volume / max_volume)
    ok_n = False
    nterm = None
    for sub in ast.walk(cnt_t):
        if isinstance(sub, ast.Call) and call_fname(sub) in ("ceil", "floor", "round", "int", "trunc") and sub.args:
            nterm = sub
            break
    if nterm is not None:
        q = nterm.args[0]
        is_q = isinstance(q, ast.BinOp) and isinstance(q.op, ast.Div) and is_name(q.left, "volume") and is_name(q.right, "max_volume")
        ok_n = call_fname(nterm) == "ceil" and is_q and to_poly(cnt_t) == Poly.symbol(nterm) - Poly.const(1)
    ctx.rep.check(ok_n, rule, f"{f.qualname}/step-count", "number of steps n = ceil(volume / max_volume); n - 1 equal steps + remainder",
                  f"the number of equal steps is `{show(cnt_t)[:70]}`; expected ceil(volume / max_volume) - 1 (fewer steps cannot stay below max_volume, a non-ceil rounding can give too few)", where=f.where(init.ast))
    # ---- every reaching definition of the step value: lower bound (>= volume / n) and upper bound (<= max_volume)
    if not isinstance(step_expr, ast.Name):
        defs_terms = [(None, fv.res.resolve(step_expr, init.id))]
    else:
        defs = sorted(fv.cfg.reaching()[init.id].get(step_expr.id, ()))
        defs_terms = []
        for d in defs:
            dn = fv.cfg.nodes[d]
            if dn.kind == "stmt" and isinstance(dn.ast, ast.Assign):
                defs_terms.append((d, fv.res.resolve(dn.ast.value, d)))
            else:
                defs_terms.append((d, None))
    quotient_ok = lambda q: isinstance(q, ast.BinOp) and isinstance(q.op, ast.Div) and is_name(q.left, "volume") and nterm is not None and key(q.right) == key(nterm)  # noqa: E731
    for d, term in defs_terms:
        c = f"{f.qualname}/step[{show(term)[:40] if term is not None else '?'}]"
        if term is None:
            ctx.rep.inconclusive(rule, c, "step value has a definition the analysis cannot read", where=w)
            continue
        fn = call_fname(term)
        lower = None
        upper = None
        if fn == "ceil" and term.args and quotient_ok(term.args[0]):
            lower = True  # ceil(x) >= x
            upper = False  # rounding up may exceed max_volume (non-integer limit) unless re-established
        elif quotient_ok(term):
            lower, upper = True, None  # exact quotient: <= max in real arithmetic, not against round-off
        elif fn == "min" and len(term.args) == 2 and any(is_name(a, "max_volume") for a in term.args):
            other = [a for a in term.args if not is_name(a, "max_volume")][0]
            upper = True
            lower = True if (quotient_ok(other) or (call_fname(other) == "ceil" and other.args and quotient_ok(other.args[0]))) else None
            # the floored quotient (`//`, floor / int / round of it) is below volume/steps
            floored = isinstance(other, ast.BinOp) and isinstance(other.op, ast.FloorDiv) and is_name(other.left, "volume") and nterm is not None and key(other.right) == key(nterm)
            floored = floored or (call_fname(other) in ("floor", "trunc", "int", "round", "rint") and getattr(other, "args", None) and quotient_ok(other.args[0]))
            if floored:
                lower = False
        elif fn in ("round", "floor", "int", "trunc") and term.args and (quotient_ok(term.args[0])):
            lower = False
        elif fn in ("min", "max", "minimum", "maximum") and len(term.args) >= 2:
            # min(..) is >= volume/steps only if every operand is; max_volume itself is (volume/steps <= max_volume by the
            # choice of the step count), a rounded-down version of it is not
            def lower_of(t_):
                f_ = call_fname(t_)
                if quotient_ok(t_) or (f_ == "ceil" and t_.args and quotient_ok(t_.args[0])) or is_name(t_, "max_volume"):
                    return True
                if f_ in ("floor", "trunc", "int", "round", "rint") and t_.args and (is_name(t_.args[0], "max_volume") or quotient_ok(t_.args[0])):
                    return False
                if f_ in ("min", "minimum") and t_.args:
                    vals = [lower_of(a_) for a_ in t_.args]
                    return False if False in vals else (True if all(v is True for v in vals) else None)
                if f_ in ("max", "maximum") and t_.args:
                    vals = [lower_of(a_) for a_ in t_.args]
                    return True if True in vals else (False if all(v is False for v in vals) else None)
                return None

            lower = lower_of(term)
            ups = [a_ for a_ in term.args if is_name(a_, "max_volume") or (call_fname(a_) in ("floor", "trunc") and a_.args and is_name(a_.args[0], "max_volume"))]
            upper = True if (fn in ("min", "minimum") and ups) else None
        if lower is False:
            ctx.rep.refuted(rule, c + "/lower", f"the equal steps are `{show(term)[:60]}`, which can be smaller than volume/steps: the remainder then exceeds max_volume (refused or capped, i.e. liquid is lost)", where=w)
        elif lower is None:
            ctx.rep.inconclusive(rule, c + "/lower", f"cannot establish step >= volume/steps for `{show(term)[:60]}`", where=w)
        else:
            ctx.rep.holds(rule, c + "/lower", "step >= volume/steps (upward rounding or exact quotient)", where=w)
        if upper is not True:
            # override-under-guard: a later definition replaces this one exactly when it exceeds max_volume
            guarded = False
            if d is not None:
                for d2, t2 in defs_terms:
                    if d2 is None or d2 == d:
                        continue
                    for tn, pol in fv.controlling(d2):
                        tst = fv.cfg.nodes[tn].ast
                        rt = fv.res.resolve(tst, tn)
                        cm = to_cmp(rt, pol)
                        if cm is not None and cm == Cmp(Poly.symbol(term) - pm, ">"):
                            guarded = True
            if guarded:
                upper = True
        if upper is True:
            ctx.rep.holds(rule, c + "/upper", "step <= max_volume is established (min(., max_volume) or replaced whenever it exceeds the limit)", where=w)
        elif upper is False:
            ctx.rep.refuted(rule, c + "/upper", f"`{show(term)[:60]}` rounds up a quantity that can equal max_volume and is returned without re-establishing step <= max_volume (non-integer limits: partition_volume(2.3, max_volume=1.2) -> 2)", where=w)
        else:
            ctx.rep.inconclusive(rule, c + "/upper", f"step <= max_volume is not established for `{show(term)[:60]}` (exact quotient may exceed the limit by round-off)", where=w)
    # ---- remainder
    arg = fv.res.resolve(app.call.args[0], app.node)
    capped = False
    inner = arg
    if call_fname(arg) == "min" and len(arg.args) == 2 and any(is_name(a, "max_volume") for a in arg.args):
        capped = True
        inner = [a for a in arg.args if not is_name(a, "max_volume")][0]
    ok_rem = False
    if isinstance(inner, ast.BinOp) and isinstance(inner.op, ast.Sub) and is_name(inner.left, "volume"):
        s = inner.right
        if isinstance(s, ast.Call) and call_fname(s) == "sum" and s.args:
            # the summed sequence is the list of the previous (equal) steps
            ok_rem = key(s.args[0]) == key(fv.res.resolve(init.ast.value, init.id)) or key(s.args[0]) == key(fv.res.resolve(ast.Name(id=lname, ctx=ast.Load()), app.node))
    ctx.rep.check(ok_rem, rule, f"{f.qualname}/remainder", "last element = volume - sum(previous elements)", f"the last element is `{show(arg)[:70]}`; expected the remainder volume - sum(previous steps), which makes the steps add up to the request", where=f.where(app.call))
    ctx.rep.check(capped, rule, f"{f.qualname}/remainder-cap", "the remainder is capped by max_volume", "the remainder is returned uncapped: round-off can push it marginally above max_volume (partition_volume(166.5, max_volume=33.3) ended with 33.30000000000001)", where=f.where(app.call))
    # the append happens on every path to the return, exactly once
    ctx.rep.check(fv.cfg.dominates(app.node, rn.id) and not fv.cfg.enclosing_loops(app.node) and not fv.controlling(app.node, skip_raising=True) or
                  (fv.cfg.dominates(app.node, rn.id) and not fv.cfg.enclosing_loops(app.node)), rule, f"{f.qualname}/remainder-always", "the remainder is appended exactly once before the return",
                  "the remainder is not appended exactly once on the way to the return", where=f.where(app.call))


def multi_disp(ctx) -> None:
    rule = "C06.multi-disp"
    base = ctx.prog.require_class("BaseWorklist", rule)
    f = base.methods.get("reagent_distribution")
    if f is None:
        raise AnalysisInconclusive(rule, "reagent_distribution", "not found")
    fv = ctx.fv(f, base)
    selfn = f.params[0]
    M = Poly.symbol(ast.Attribute(value=ast.Name(id=selfn, ctx=ast.Load()), attr="max_volume", ctx=ast.Load()))
    assigns = [n for n in fv.cfg.nodes if n.kind == "stmt" and isinstance(n.ast, ast.Assign) and is_name(n.ast.targets[0], "multi_disp")]
    if len(assigns) != 1:
        ctx.rep.check(None if not assigns else False, rule, f"{f.qualname}/multi_disp", "", f"expected one reduction of multi_disp, found {len(assigns)}", where=f.where())
        return
    n = assigns[0]
    w = f.where(n.ast)
    md, vol = Poly.symbol(ast.Name(id="multi_disp", ctx=ast.Load())), Poly.symbol(ast.Name(id="volume", ctx=ast.Load()))
    ok_guard = False
    extra = []
    for d, pol in fv.controlling(n.id, skip_raising=True):
        cm = to_cmp(fv.res.resolve(fv.cfg.nodes[d].ast, d), pol)
        if cm is not None and cm == Cmp(md * vol - M, ">"):
            ok_guard = True
        else:
            extra.append((fv.cfg.nodes[d], pol))
    if ok_guard and extra:
        # the size test holds and the reduction is still skipped (a report-once flag, a per-labware memo ..): the record
        # then plans multi_disp * volume > max_volume per aspiration
        ctx.rep.refuted(rule, f"{f.qualname}/when-only", f"the reduction of multi_disp additionally depends on `{show(extra[0][0].ast)[:60]}` being {extra[0][1]}: when that fails while "
                        "multi_disp * volume > self.max_volume the record keeps the oversized multi-dispense count", where=w)
    elif ok_guard:
        ctx.rep.holds(rule, f"{f.qualname}/when-only", "the size test is the only condition of the reduction")
    ctx.rep.check(ok_guard, rule, f"{f.qualname}/when", "multi_disp is reduced exactly when multi_disp * volume > max_volume", "multi_disp is not reduced under the test multi_disp * volume > self.max_volume (reduced only as far as needed)", where=w)
    v = fv.res.resolve(n.ast.value, n.id)
    ok_v = call_fname(v) == "floor" and v.args and isinstance(v.args[0], ast.BinOp) and isinstance(v.args[0].op, ast.Div) and to_poly(v.args[0].left) == M and is_name(v.args[0].right, "volume")
    alt = isinstance(v, ast.Call) and call_fname(v) == "int" and v.args and isinstance(v.args[0], ast.BinOp) and isinstance(v.args[0].op, (ast.FloorDiv, ast.Div)) and to_poly(v.args[0].left) == M and is_name(v.args[0].right, "volume")
    alt2 = isinstance(v, ast.BinOp) and isinstance(v.op, ast.FloorDiv) and to_poly(v.left) == M and is_name(v.right, "volume")
    ctx.rep.check(bool(ok_v or alt or alt2), rule, f"{f.qualname}/floor", "multi_disp = floor(max_volume / volume)",
                  f"multi_disp is reduced to `{show(v)[:60]}`; only floor(self.max_volume / volume) guarantees multi_disp * volume <= max_volume", where=w)
    # the record's multi-dispense field is an integer: math.floor / int yield one, `//` of floats and numpy.floor do not
    raw = n.ast.value
    int_typed = False
    if isinstance(raw, ast.Call) and call_fname(raw) == "int":
        int_typed = True
    elif isinstance(raw, ast.Call) and call_fname(raw) in ("floor", "ceil", "trunc"):
        fn = raw.func
        mod = fn.value.id if isinstance(fn, ast.Attribute) and isinstance(fn.value, ast.Name) else None
        target = f.module.imports.get(mod if mod else call_fname(raw)) if hasattr(f.module, "imports") else None
        int_typed = (target or "").split(".")[0] == "math" or (target is None and mod == "math")
    ctx.rep.check(int_typed, rule, f"{f.qualname}/int-typed", "the reduced multi_disp is a Python int (math.floor / int)",
                  f"multi_disp is reduced to `{show(raw)[:60]}`, which is a float for float operands: the R record's multi-dispense field is then printed as e.g. `2.0`", where=w)
    # the reduced value is what the record gets
    emit = [x for x in fv.cfg.nodes if any(e.kind == "EMIT" and e.arg == "R" for e in ctx.E.direct(fv, x))]
    ctx.rep.check(bool(emit) and all(fv.cfg.reaches(n.id, e.id) for e in emit), rule, f"{f.qualname}/before-emit", "the reduction precedes the R record", "the R record is emitted before multi_disp is reduced", where=w)
