"""C03 - a worklist never contains a rejected or oversized pipetting step, even on abort (ordering property)."""
from __future__ import annotations

import ast
from typing import List, Optional, Set

from ..canon import Cmp, Poly, to_cmp, to_poly
from ..defuse import is_sym, key, show, strip_norm
from ..engine import Effect, own_walk, return_exprs, template_parts, Hole
from ..model import AnalysisInconclusive
from .common import attr_of_name, call_fname, concrete_devices, contains_key, elem_parts, has_unknown, is_name, kwarg, raise_class, stmt_key

EXPLANATION = (
    "C03: check-before-emit as a path property. For every worklist method (resolved per device class) that books liquid "
    "on a Labware and emits pipetting records, every CFG path from entry to an emission passes the tracking call "
    "(Labware.add/remove, which raise on violations) first; every A/D/script-command volume is dominated by the per-step "
    "max_volume guard raising InvalidOperationError, and every call chain hands the worklist's own max_volume to that "
    "guard; low-level emitters validate before they append; __exit__ saves unconditionally and never swallows."
)
ASSUMPTIONS = ["an exception raised by a callee propagates (no handler in between: checked by C02.no-swallow)"]

PIPETTING = {"A", "D", "R", "B;Aspirate", "B;Dispense"}


def run(ctx) -> None:
    ctx.guard("C03.check-before-emit", check_before_emit)
    # the tracking calls are only a check if they reject: limit guards + NaN-rejecting non-negativity (shared with C02)
    from . import c02

    for kind in ("add", "remove"):
        ctx.reuse("C03.tracking-rejects", c02.guard, kind)
        ctx.reuse("C03.tracking-rejects", c02.nonneg, kind)
    ctx.reuse("C03.tracking-rejects", c02.ctor)
    # the tracking call only protects the worklist if it is handed what the records will say
    from . import c01, c06

    for dev in concrete_devices(ctx):
        for meth, track, kind_ in (("aspirate", "remove", "A"), ("dispense", "add", "D")):
            ctx.reuse("C03.tracked-amount", c01.pair_ad, dev, meth, track, kind_)
    ctx.reuse("C03.tracked-amount", c01.pair_distribute, "C01.pair-distribute")
    # ... and checks every well it is handed: no sequence zipped into the update loop can cut it short
    from . import c04

    ctx.reuse("C03.tracked-amount", c04.pairing_family)
    for kind in ("add", "remove"):
        ctx.reuse("C03.tracking-rejects", c04.length_guard, kind)
        ctx.reuse("C03.tracking-rejects", c04.frame_delta, kind)
        ctx.reuse("C03.tracking-rejects", c04.once, kind)
    ctx.reuse("C03.step-guard", c06.multi_disp)
    # the record addresses the cavity that was checked: the Fluent numbering of troughs follows the trough predicate
    from . import c08

    ctx.reuse("C03.tracked-amount", c08.trough_predicate)
    for dev in concrete_devices(ctx):
        ctx.reuse("C03.tracked-amount", c01.numbering_hook, dev)
    ctx.reuse("C03.step-guard", c06.config)
    from . import c13

    ctx.reuse("C03.tracked-amount", c13.one_to_one)
    for name_, track_ in (("evo_aspirate", "remove"), ("evo_dispense", "add")):
        ctx.reuse("C03.tracked-amount", c13.same_args, name_, track_)
    ctx.guard("C03.step-guard", step_guard_validator)
    ctx.guard("C03.step-guard", step_guard_wiring)
    ctx.guard("C03.step-guard", step_guard_evo)
    ctx.guard("C03.step-guard", step_guard_distribute)
    ctx.guard("C03.validate-before-append", validate_before_append, "C03.validate-before-append")
    ctx.guard("C03.exit", exit_saves, "C03.exit")
    from . import objmodel

    ctx.guard("C03.step-guard", objmodel.worklist_model, "C03.step-guard")
    from . import c09 as _c09, c16 as _c16

    ctx.reuse("C03.tracked-amount", _c09.list_overrides)
    ctx.reuse("C03.step-guard", _c16.override_set)
    # a refused step ends the operation: nothing (finally: return, suppress) turns the refusal into a normal return after part of
    # the steps were booked
    ctx.reuse("C03.tracking-rejects", c02.no_swallow)


def worklist_methods(ctx, dev):
    names = sorted({m for k in ctx.prog.mro(dev) if hasattr(k, "methods") for m in k.methods})
    for name in names:
        f = ctx.prog.find_method(dev, name)
        if f is not None and f.qualname not in ctx.prog.inlined_helpers:
            yield name, f


def check_before_emit(ctx, rule: str = "C03.check-before-emit") -> None:
    lab = ctx.prog.require_class("Labware", rule)
    n_inst = 0
    for dev in concrete_devices(ctx):
        for name, f in worklist_methods(ctx, dev):
            if name.startswith("__"):
                continue
            fv = ctx.fv(f, dev)
            track = [c for c in fv.calls() if c.callee.kind == "func" and c.callee.func.short in ("Labware.add", "Labware.remove")]
            if not track:
                # composite operations (transfer, ...): pipetting records must come from calls that also book the liquid; a
                # record-only emitter (aspirate_well, dispense_well, ...) must be preceded by booking on every path
                env = ctx.prog.local_types(f, dev)
                if not any(c is lab or lab in ctx.prog.mro(c) for c in env.values()):
                    continue
                raw_emit, booked = [], []
                for n in fv.cfg.nodes:
                    effs = ctx.E.node_effects(fv, n)
                    if any(e.kind == "VOLWRITE" for e in effs):
                        booked.append(n.id)
                    elif {e.arg for e in effs if e.kind == "EMIT"} & PIPETTING:
                        raw_emit.append(n.id)
                if raw_emit:
                    early = ctx.E.must_precede(fv, booked, raw_emit) if booked else raw_emit
                    c = f"{dev.name}.{name}/record-only-emission"
                    if early:
                        en = fv.cfg.nodes[early[0]]
                        ctx.rep.refuted(rule, c, f"`{stmt_key(en.ast)[:70]}` writes a pipetting record on a path on which no volume was booked on a labware before: "
                                        "the step is neither checked against the volume limits nor reflected in the tracked volumes", where=f.where(en.ast))
                    else:
                        ctx.rep.holds(rule, c, f"{len(raw_emit)} record-only emission(s), each preceded by a booking call", where=f.where())
                continue
            # emission nodes: pipetting records produced by something that does not itself track
            emit_nodes = []
            for n in fv.cfg.nodes:
                effs = ctx.E.node_effects(fv, n)
                kinds = {e.arg for e in effs if e.kind == "EMIT"}
                # every record of the step counts - also its comment: a refused step leaves nothing behind
                if kinds and not any(c.node == n.id for c in track):
                    emit_nodes.append(n.id)
            if not emit_nodes:
                continue
            n_inst += 1
            for t in track:
                lp = t.call.func.value.id if isinstance(t.call.func, ast.Attribute) and isinstance(t.call.func.value, ast.Name) else "?"
                early = ctx.E.must_precede(fv, [t.node], emit_nodes)
                c = f"{dev.name}.{name}/{t.callee.func.name}({lp})"
                if early:
                    en = fv.cfg.nodes[early[0]]
                    ctx.rep.refuted(rule, c, f"the record emission `{stmt_key(en.ast)[:80]}` can be reached before `{lp}.{t.callee.func.name}(...)` has checked the volume limits: "
                                    "a step refused by the volume check stays in the worklist (and is saved by __exit__)", where=f.where(en.ast))
                else:
                    ctx.rep.holds(rule, c, f"tracking of `{lp}` precedes all {len(emit_nodes)} emission node(s)", where=f.where(t.call))
    ctx.rep.floor(rule, "methods that track and emit", n_inst, 8)


# ------------------------------------------------------------------------------- step guard
def _max_guard(fv, at: int):
    """Raising guards of the form `[max_volume is not None and] X > max_volume` that dominate `at`."""
    out = []
    for n, test, pol_raise, r in fv.raising_guards():
        if not pol_raise:
            continue
        if not any(isinstance(x, ast.Name) and x.id == "max_volume" or isinstance(x, ast.Attribute) and x.attr == "max_volume" for x in ast.walk(test)):
            continue  # another range check (text length, position, ...)
        if not fv.cfg.dominates(n.id, at):
            # nested form: `if max_volume is not None:` / `if volume > max_volume: raise` - the outer test dominates the return
            ctrl = fv.controlling(n.id, skip_raising=True)
            outer_ok = len(ctrl) == 1 and ctrl[0][1] and fv.cfg.dominates(ctrl[0][0], at)
            if outer_ok:
                ot = fv.res.resolve(fv.cfg.nodes[ctrl[0][0]].ast, ctrl[0][0])
                outer_ok = isinstance(ot, ast.Compare) and len(ot.ops) == 1 and isinstance(ot.ops[0], ast.IsNot) and isinstance(ot.comparators[0], ast.Constant) and ot.comparators[0].value is None \
                    and (is_name(ot.left, "max_volume") or (isinstance(ot.left, ast.Attribute) and ot.left.attr == "max_volume"))
            if not outer_ok:
                continue
        parts = test.values if isinstance(test, ast.BoolOp) and isinstance(test.op, ast.And) else [test]
        cmp_part = None
        others_ok = True
        for p in parts:
            rp = fv.res.resolve(p, n.id)
            if isinstance(rp, ast.Compare) and len(rp.ops) == 1 and isinstance(rp.ops[0], (ast.Gt, ast.Lt, ast.GtE, ast.LtE)):
                cmp_part = rp
            elif isinstance(rp, ast.Compare) and len(rp.ops) == 1 and isinstance(rp.ops[0], ast.IsNot) and isinstance(rp.comparators[0], ast.Constant) and rp.comparators[0].value is None:
                pass
            else:
                others_ok = False
        if cmp_part is None or not others_ok:
            continue
        out.append((n, cmp_part, r))
    return out


def step_guard_validator(ctx, rule: str = "C03.step-guard") -> None:
    f = ctx.prog.require_func("prepare_aspirate_dispense_parameters", rule)
    fv = ctx.fv(f)
    rets = [n for n in fv.cfg.nodes if n.kind == "stmt" and isinstance(n.ast, ast.Return) and n.ast.value is not None]
    if not rets:
        raise AnalysisInconclusive(rule, f.qualname, "no return")
    for rn in rets:
        c = f"{f.qualname}/return"
        w = f.where(rn.ast)
        val = fv.res.resolve(rn.ast.value, rn.id)
        if not (isinstance(val, ast.Tuple) and len(val.elts) == 9):
            ctx.rep.inconclusive(rule, c, "validator does not return the 9-tuple", where=w)
            continue
        vol_term = val.elts[2]
        guards = _max_guard(fv, rn.id)
        ok = False
        detail = "no raising guard `volume > max_volume` dominates the return"
        for n, cmp_part, r in guards:
            cm = to_cmp(cmp_part, True)
            maxp = Poly.symbol(ast.Name(id="max_volume", ctx=ast.Load()))
            # X - max > 0
            X = None
            for side in (cmp_part.left, cmp_part.comparators[0]):
                if not is_name(side, "max_volume"):
                    X = side
            if X is None or cm is None:
                continue
            if cm == Cmp(to_poly(X) - maxp, ">"):
                cls, mro = raise_class(fv, r)
                if cls != "InvalidOperationError":
                    detail = f"oversized step raises {cls}, the property requires InvalidOperationError"
                    continue
                exact = X
                while isinstance(exact, ast.Call) and call_fname(exact) == "float" and len(exact.args) == 1:
                    exact = exact.args[0]
                lossy = [call_fname(s_) for s_ in ast.walk(X) if isinstance(s_, ast.Call) and call_fname(s_) in ("round", "around", "round_", "floor", "ceil", "trunc", "int", "rint", "fix")]
                if lossy:
                    detail = f"the limit is compared with `{show(X)[:70]}`, a rounded value ({lossy[0]}), not with the step volume itself: steps marginally above max_volume pass and steps equal to it can be refused"
                elif not is_name(exact, "volume"):
                    detail = f"the limit is compared with `{show(X)[:70]}` instead of the step volume"
                elif contains_key(vol_term, key(X)):
                    ok = True
                else:
                    detail = f"the guard compares `{show(X)}` but the record's volume field is built from `{show(vol_term)[:80]}`"
            else:
                detail = f"guard `{cm.pretty()}` is not `volume - max_volume > 0` (wrong strictness or operand)"
        ctx.rep.check(ok, rule, c, "per-step guard `volume > max_volume => InvalidOperationError` dominates the formatted volume", detail, where=w)


def step_guard_wiring(ctx, rule: str = "C03.step-guard") -> None:
    """Every caller on a worklist hands its own max_volume to the validator (the default None/nan disables the guard)."""
    n = 0
    for dev in concrete_devices(ctx):
        for name, f in worklist_methods(ctx, dev):
            fv = ctx.fv(f, dev)
            for cs in fv.calls():
                if cs.callee.kind != "func":
                    continue
                cal = cs.callee.func
                if cal.name not in ("prepare_aspirate_dispense_parameters", "evo_aspirate", "evo_dispense") or cal.cls is not None:
                    continue
                n += 1
                b = fv.bind_args(cs) or {}
                mv = b.get("max_volume")
                c = f"{dev.name}.{name}->{cal.name}/max_volume"
                if mv is None:
                    ctx.rep.refuted(rule, c, f"`{cal.name}(...)` is called without max_volume: its default disables the per-step limit, oversized steps are emitted", where=f.where(cs.call))
                    continue
                t = fv.res.resolve(mv, cs.node)
                ok = attr_of_name(t, f.params[0], "max_volume")
                ctx.rep.check(ok, rule, c, "max_volume=self.max_volume", f"max_volume is bound to `{show(t)}` instead of the worklist's own max_volume", where=f.where(cs.call))
    ctx.rep.floor(rule, "validator call sites on worklists", n // 2, 5)
    # the EVO command formatters forward their max_volume to the EVO validator
    for name in ("evo_aspirate", "evo_dispense"):
        f = ctx.prog.func(f"robotools.evotools.commands:{name}")
        if f is None:
            ctx.rep.inconclusive(rule, f"commands.{name}", "formatter not found")
            continue
        fv = ctx.fv(f)
        sites = [cs for cs in fv.calls() if cs.callee.kind == "func" and cs.callee.func.name == "prepare_evo_aspirate_dispense_parameters"]
        if len(sites) != 1:
            ctx.rep.inconclusive(rule, f"commands.{name}", "expected one validator call")
            continue
        b = fv.bind_args(sites[0]) or {}
        c = f"commands.{name}->validator/max_volume"
        if "max_volume" not in b:
            ctx.rep.refuted(rule, c, "validator is called without max_volume: the caller's limit is not enforced", where=f.where(sites[0].call))
            continue
        verdict, detail = _limit_passthrough(fv, b["max_volume"], sites[0].node, "max_volume")
        if verdict is None:
            ctx.rep.inconclusive(rule, c, detail, where=f.where(sites[0].call))
        else:
            ctx.rep.check(verdict, rule, c, detail, detail, where=f.where(sites[0].call))


LOOSENING = {"fmax", "max", "maximum", "nanmax", "amax"}
TIGHTENING = {"fmin", "min", "minimum", "nanmin", "amin"}


def _limit_passthrough(fv, expr: ast.AST, at: int, param: str, depth: int = 0):
    """Is `expr` (evaluated at node `at`) the caller's limit `param`, replaced only where no limit was given (NaN / None)?
    -> (True|False|None, detail)"""
    if depth > 4:
        return None, "definition chain of the limit is too deep"
    if isinstance(expr, ast.Name):
        defs = sorted(fv.cfg.reaching()[at].get(expr.id, ()))
        if not defs:
            return None, f"`{expr.id}` has no reaching definition"
        notes = []
        for d in defs:
            dn = fv.cfg.nodes[d]
            if dn.kind != "stmt":
                if expr.id == param:
                    notes.append("the parameter itself")
                    continue
                return None, f"`{expr.id}` is bound by {dn.kind}"
            st = dn.ast
            if isinstance(st, ast.Assign) and len(st.targets) == 1 and isinstance(st.targets[0], ast.Name):
                absent = False
                for r, pol, br in fv.atoms_at(d):
                    if pol and isinstance(r, ast.Call) and call_fname(r) in ("isnan",) and r.args and is_name(r.args[0], param):
                        absent = True
                    if pol and isinstance(r, ast.Compare) and len(r.ops) == 1 and isinstance(r.ops[0], ast.Is) and is_name(r.left, param) \
                            and isinstance(r.comparators[0], ast.Constant) and r.comparators[0].value is None:
                        absent = True
                if absent:
                    notes.append(f"`{stmt_key(st)[:50]}` only where no limit was given")
                    continue
                v, why = _limit_passthrough(fv, st.value, d, param, depth + 1)
                if v is not True:
                    return v, why
                notes.append(why)
            else:
                return None, f"`{expr.id}` is bound by `{stmt_key(st)[:60]}`"
        return True, "validator receives " + "; ".join(notes)
    if isinstance(expr, ast.IfExp):
        rt = fv.res.resolve(expr.test, at)
        core, pol = rt, True
        while isinstance(core, ast.UnaryOp) and isinstance(core.op, ast.Not):
            core, pol = core.operand, not pol
        if isinstance(core, ast.Call) and call_fname(core) == "isnan" and core.args and is_name(core.args[0], param):
            keep = expr.orelse if pol else expr.body
            return _limit_passthrough(fv, keep, at, param, depth + 1)
        if isinstance(core, ast.Compare) and len(core.ops) == 1 and isinstance(core.ops[0], (ast.Is, ast.IsNot)) and is_name(core.left, param):
            is_none = isinstance(core.ops[0], ast.Is) == pol
            keep = expr.orelse if is_none else expr.body
            return _limit_passthrough(fv, keep, at, param, depth + 1)
        return None, f"limit chosen by `{show(rt)[:60]}`"
    if isinstance(expr, ast.Call):
        fn = call_fname(expr)
        mentions = any(isinstance(x, ast.Name) and x.id == param for x in ast.walk(expr))
        if fn == "float" and len(expr.args) == 1:
            return _limit_passthrough(fv, expr.args[0], at, param, depth + 1)
        if fn in LOOSENING and mentions:
            return False, f"validator receives `{show(expr)[:70]}`: a limit below the other operand is raised to it, so steps above the caller's max_volume pass"
        if fn in TIGHTENING and mentions:
            return True, f"validator receives `{show(expr)[:70]}` (never above the caller's limit)"
        return None, f"validator receives `{show(expr)[:70]}`: cannot relate it to the caller's max_volume"
    if isinstance(expr, ast.Constant):
        return False, f"validator receives the constant `{show(expr)}`: the caller's limit is not enforced"
    return None, f"validator receives `{show(expr)[:70]}`: cannot relate it to the caller's max_volume"


def step_guard_distribute(ctx, rule: str = "C03.step-guard") -> None:
    """distribute refuses a per-well volume above the worklist's max_volume - and only that (a volume equal to it is fine)."""
    f = ctx.prog.require_func("BaseWorklist.distribute", rule)
    fv = ctx.fv(f)
    selfn = f.params[0]
    M = Poly.symbol(ast.Attribute(value=ast.Name(id=selfn, ctx=ast.Load()), attr="max_volume", ctx=ast.Load()))
    V = Poly.symbol(ast.Name(id="volume", ctx=ast.Load()))
    found = None
    for n, test, pol, r in fv.raising_guards():
        rt = fv.res.resolve(test, n.id)
        cm = to_cmp(rt, pol)
        if cm is None or not any(attr_of_name(x, selfn, "max_volume") for x in ast.walk(rt)):
            continue
        found = (n, cm, raise_class(fv, r)[0])
    c = f"{f.qualname}/volume-guard"
    if found is None:
        ctx.rep.refuted(rule, c, "distribute has no guard that compares the per-well volume with self.max_volume: oversized reagent distributions are emitted", where=f.where())
        return
    n, cm, cls = found
    ok = cm == Cmp(V - M, ">") and cls == "InvalidOperationError"
    ctx.rep.check(ok, rule, c, "volume > self.max_volume raises InvalidOperationError",
                  f"distribute rejects when `{cm.pretty()}` with {cls}; expected exactly `volume - self.max_volume > 0` with InvalidOperationError (a volume equal to max_volume is a valid step)", where=f.where(n.ast))


def step_guard_evo(ctx, rule: str = "C03.step-guard") -> None:
    f = ctx.prog.require_func("prepare_evo_aspirate_dispense_parameters", rule)
    fv = ctx.fv(f)
    rets = [n for n in fv.cfg.nodes if n.kind == "stmt" and isinstance(n.ast, ast.Return)]
    if not rets:
        raise AnalysisInconclusive(rule, f.qualname, "no return")
    # enumerate the branches on the type of `volume`
    branches = []
    for n in fv.cfg.nodes:
        if n.kind == "test":
            r = fv.res.resolve(n.ast, n.id)
            if isinstance(r, ast.Call) and call_fname(r) == "isinstance" and len(r.args) == 2 and is_name(r.args[0], "volume"):
                branches.append((n, r))
    if len(branches) < 2:
        ctx.rep.inconclusive(rule, f.qualname, "expected the list / scalar branches on isinstance(volume, ...)")
        return
    maxp = Poly.symbol(ast.Name(id="max_volume", ctx=ast.Load()))
    for n, r in branches:
        tname = show(r.args[1])
        c = f"{f.qualname}/branch[{tname}]"
        w = f.where(n.ast)
        t_succ = [s for s, lab in n.succ if lab == "T"][0]
        region = {x for x in fv.cfg.reachable_from(t_succ) if fv.cfg.dominates(t_succ, x)} | {t_succ}
        guards = []
        for gn, test, pol_raise, rs in fv.raising_guards():
            if gn.id in region and pol_raise:
                cls, _ = raise_class(fv, rs)
                if cls == "InvalidOperationError":
                    guards.append((gn, test, rs))
        if not guards:
            ctx.rep.refuted(rule, c, f"the {tname} branch of the EVO validator has no `volume > max_volume => InvalidOperationError` guard: oversized steps are emitted", where=w)
            continue
        ok = False
        detail = ""
        for gn, test, rs in guards:
            parts = test.values if isinstance(test, ast.BoolOp) and isinstance(test.op, ast.And) else [test]
            # besides the comparison the guard may only ask whether a limit was given at all
            foreign = [p for p in parts if not (isinstance(p, ast.Compare) and len(p.ops) == 1 and (
                isinstance(p.ops[0], (ast.Gt, ast.Lt, ast.GtE, ast.LtE)) or
                (isinstance(p.ops[0], ast.IsNot) and is_name(p.left, "max_volume") and isinstance(p.comparators[0], ast.Constant) and p.comparators[0].value is None)))]
            if foreign:
                detail = f"the limit comparison only applies when `{show(foreign[0])[:40]}`: for a given max_volume it is never evaluated"
                continue
            for p in parts:
                rp = fv.res.resolve(p, gn.id)
                cm = to_cmp(rp, True)
                if cm is None or not (isinstance(rp, ast.Compare) and any(is_name(x, "max_volume") for x in [rp.left] + rp.comparators)):
                    continue
                X = rp.left if not is_name(rp.left, "max_volume") else rp.comparators[0]
                if cm != Cmp(to_poly(X) - maxp, ">"):
                    detail = f"guard `{cm.pretty()}` is not `volume - max_volume > 0`"
                    continue
                if "list" in tname or "tuple" in tname or "ndarray" in tname:
                    # must be checked for every element: X = [float(]§elem(loop, volume)[)] inside that loop, no break
                    base = X
                    while isinstance(base, ast.Call) and call_fname(base) == "float" and base.args:
                        base = base.args[0]
                    ep = elem_parts(base)
                    loops = [h for h in fv.cfg.enclosing_loops(gn.id) if fv.cfg.nodes[h].kind == "for"]
                    if ep is not None and loops and ep[0] == f"loop@{loops[-1]}" and is_name(strip_norm(ep[1]), "volume") and not fv.cfg.loop_has_break.get(loops[-1]):
                        ok = True
                    else:
                        detail = f"the limit is compared with `{show(X)[:60]}`, which is not every element of the volume list (guard outside the per-element loop?)"
                else:
                    if is_name(X, "volume") or (isinstance(X, ast.Call) and call_fname(X) == "float" and X.args and is_name(X.args[0], "volume")):
                        ok = True
                    else:
                        detail = f"the limit is compared with `{show(X)[:60]}` instead of the volume argument"
        ctx.rep.check(ok, rule, c, f"{tname} branch: every volume is compared with max_volume", detail or "no usable limit comparison", where=w)


# --------------------------------------------------------------------- validate-before-append
def direct_emitters(ctx, dev):
    for name, f in worklist_methods(ctx, dev):
        fv = ctx.fv(f, dev)
        en = [n.id for n in fv.cfg.nodes if any(e.kind == "EMIT" for e in ctx.E.direct(fv, n))]
        if en:
            yield name, f, fv, en


def validate_before_append(ctx, rule: str) -> None:
    seen = set()
    count = 0
    for dev in concrete_devices(ctx):
        for name, f, fv, emit_nodes in direct_emitters(ctx, dev):
            if f.qualname in seen:
                continue
            seen.add(f.qualname)
            count += 1
            raising = []
            for n in fv.cfg.nodes:
                if n.id in emit_nodes:
                    continue
                if (n.kind == "stmt" and isinstance(n.ast, ast.Raise)) or n.kind == "assert_fail":
                    raising.append(n.id)
                    continue
                # calls into package functions that may raise validation errors
                for cs in fv.calls():
                    if cs.node == n.id and cs.callee.kind == "func" and any(e.kind == "RAISE" for e in ctx.E.summary(cs.callee.func, dev if cs.callee.func.cls else None)):
                        # emission helpers themselves (comment) are handled by their own instance
                        if any(e.kind == "EMIT" for e in ctx.E.summary(cs.callee.func, dev if cs.callee.func.cls else None)):
                            continue
                        raising.append(n.id)
            bad = None
            for e in emit_nodes:
                for r in raising:
                    if fv.cfg.reaches(e, r):
                        bad = (e, r)
            c = f"{f.qualname}"
            if bad:
                e, r = bad
                ctx.rep.refuted(rule, c, f"`{stmt_key(fv.cfg.nodes[e].ast)[:60]}` can be followed by the rejection `{stmt_key(fv.cfg.nodes[r].ast)[:60]}` in the same call: "
                                "a call that raises leaves records behind", where=f.where(fv.cfg.nodes[e].ast))
            else:
                ctx.rep.holds(rule, c, f"{len(emit_nodes)} append node(s); none can be followed by one of the {len(raising)} rejecting node(s)", where=f.where())
    ctx.rep.floor(rule, "direct emitters", count, 12)


# -------------------------------------------------------------------------------------- exit
def exit_saves(ctx, rule: str) -> None:
    base = ctx.prog.require_class("BaseWorklist", rule)
    for dev in [base] + concrete_devices(ctx):
        f = ctx.prog.find_method(dev, "__exit__")
        if f is None:
            ctx.rep.refuted(rule, f"{dev.name}.__exit__", "no __exit__: leaving the with-block saves nothing")
            continue
        fv = ctx.fv(f, dev)
        c = f"{dev.name}.__exit__"
        saves = [cs for cs in fv.calls() if cs.callee.kind == "func" and cs.callee.func.name == "save"]
        if len(saves) != 1:
            ctx.rep.check(None if saves else False, rule, c + "/save", "", f"expected exactly one save() call in __exit__, found {len(saves)}", where=f.where())
            continue
        sv = saves[0]
        tests = [d for d, _ in fv.controlling(sv.node)]
        ok = True
        detail = ""
        selfn = f.params[0]
        pols = dict(fv.controlling(sv.node))
        for d in tests:
            t = fv.cfg.nodes[d].ast
            pol_ = pols.get(d, True)
            while isinstance(t, ast.UnaryOp) and isinstance(t.op, ast.Not):
                t, pol_ = t.operand, not pol_
            if isinstance(t, ast.Compare) and len(t.ops) == 1 and isinstance(t.ops[0], ast.Is) and not pol_:
                # reached when `x is None` is false: the same as `x is not None` being true
                t, pol_ = ast.Compare(left=t.left, ops=[ast.IsNot()], comparators=t.comparators), True
            if not pol_:
                ok = False
                detail = f"saving happens when `{stmt_key(t)}` is false"
                continue
            # the path held in a single-definition local (`target = self._filepath; if target: ..`)
            if isinstance(t, ast.Name):
                t = fv.def_expr(t, d)[0]
            elif isinstance(t, ast.Compare) and isinstance(t.left, ast.Name):
                t = ast.Compare(left=fv.def_expr(t.left, d)[0], ops=t.ops, comparators=t.comparators)
            simple = attr_of_name(t, selfn, "_filepath") or attr_of_name(t, selfn, "filepath") or (
                isinstance(t, ast.Compare) and len(t.ops) == 1 and isinstance(t.ops[0], ast.IsNot) and (attr_of_name(t.left, selfn, "_filepath") or attr_of_name(t.left, selfn, "filepath"))
                and isinstance(t.comparators[0], ast.Constant) and t.comparators[0].value is None)
            if not simple:
                ok = False
                detail = f"saving is conditional on `{stmt_key(t)}`"
        if len(tests) > 1:
            ok = False
        ctx.rep.check(ok, rule, c + "/condition", "save() runs whenever a file path is configured", detail + ": the file is not written for every exit with a configured path (auto-save differs from explicit save)", where=f.where(sv.call))
        arg = fv.res.resolve(sv.call.args[0], sv.node) if sv.call.args else None
        ctx.rep.check(arg is not None and (attr_of_name(arg, selfn, "_filepath") or attr_of_name(arg, selfn, "filepath")), rule, c + "/path", "saves to the configured path",
                      f"__exit__ saves to `{show(arg) if arg is not None else None}`", where=f.where(sv.call))
        uses_exc = [s for s in own_walk(f.node) if isinstance(s, ast.Name) and s.id in f.params[1:] and isinstance(s.ctx, ast.Load)]
        ctx.rep.check(not uses_exc, rule, c + "/exc-independent", "__exit__ does not look at the exception", "__exit__ behaves differently when an exception propagates", where=f.where())
        truthy = [r for n, r in fv.returns() if not (isinstance(r, ast.Constant) and not r.value)]
        ctx.rep.check(not truthy, rule, c + "/no-swallow", "__exit__ returns a falsy value", "__exit__ may return a truthy value and swallow the exception", where=f.where())
