"""NamedTuple canonicalisation (model only - nothing in /repo is touched).

A refactoring that replaces an anonymous tuple by a private `typing.NamedTuple` changes no behaviour: `T(a, b, c)` is
the tuple `(a, b, c)` and `x.field` is `x[i]`. The rules reason about tuples and indices, so before any rule runs the
model is rewritten accordingly:

* `T(a, b, c)` / `T(f1=a, ...)`  ->  `(a, b, c)`           for every NamedTuple class T of the package;
* `x.field`  ->  `x[i]`                                    where the local name `x` is *known* to hold a T:
      x = T(...) | x: T = ... | parameter annotated T | x = f(...) with f annotated `-> T` |
      x = D[k] / D.get(k) / loop variable over D.values() / D.items()  with D a container of T
      (annotated Dict[.., T] / List[T] ..., or every store `D[k] = v` / `D.append(v)` in the function stores a T);
  the same for `D[k].field` and `f(...).field`.

A name that is bound to values of different classes anywhere in the function is left alone (the attribute access then
stays an attribute access, which the rules treat as an unknown term).  Only classes whose fields are plain annotated
names (no methods overriding attribute access) are handled; `_replace` / `_asdict` / `_fields` are not rewritten.
"""
from __future__ import annotations

import ast
import copy
from typing import Dict, List, Optional

from .model import Program


def _is_namedtuple(cls) -> bool:
    for b in cls.base_exprs:
        name = b.id if isinstance(b, ast.Name) else b.attr if isinstance(b, ast.Attribute) else None
        if name == "NamedTuple":
            return True
    return False


def _fields(cls) -> Optional[List[str]]:
    out = []
    for st in cls.node.body:
        if isinstance(st, ast.AnnAssign) and isinstance(st.target, ast.Name):
            out.append(st.target.id)
        elif isinstance(st, ast.Expr) and isinstance(st.value, ast.Constant):
            continue
        elif isinstance(st, ast.Pass):
            continue
        elif isinstance(st, ast.FunctionDef) and st.name not in ("__getattr__", "__getattribute__", "__getitem__", "__new__", "__iter__"):
            continue
        else:
            return None
    return out or None


def _ann_names(ann: Optional[ast.AST]) -> List[str]:
    """All class names mentioned in an annotation (Dict[str, T] -> ['Dict', 'str', 'T']); string annotations are parsed."""
    if ann is None:
        return []
    if isinstance(ann, ast.Constant) and isinstance(ann.value, str):
        try:
            ann = ast.parse(ann.value, mode="eval").body
        except SyntaxError:
            return []
    return [x.id for x in ast.walk(ann) if isinstance(x, ast.Name)] + [x.attr for x in ast.walk(ann) if isinstance(x, ast.Attribute)]


class _Canon:
    def __init__(self, prog: Program):
        self.prog = prog
        self.types: Dict[str, List[str]] = {}
        for m in prog.modules.values():
            for c in m.classes.values():
                if _is_namedtuple(c):
                    fl = _fields(c)
                    if fl and c.name not in self.types:
                        self.types[c.name] = fl
        self.log: List[str] = []

    # ---------------------------------------------------------------- type of an expression (class name or None)
    def _ret_type(self, f, call: ast.Call) -> Optional[str]:
        callee = self.prog.resolve_call(f, call, self.prog.local_types(f, f.cls))
        if callee.kind == "class" and callee.cls is not None and callee.cls.name in self.types:
            return callee.cls.name
        if callee.kind == "func" and callee.func is not None:
            names = [n for n in _ann_names(callee.func.node.returns) if n in self.types]
            if len(names) == 1 and _ann_names(callee.func.node.returns)[0] == names[0]:
                return names[0]
        return None

    def _ctor(self, f, e: ast.AST) -> Optional[str]:
        if isinstance(e, ast.Call):
            fn = e.func
            nm = fn.id if isinstance(fn, ast.Name) else None
            if nm in self.types:
                r = self.prog.resolve_name(f.module, nm)
                if isinstance(r, tuple) and r[0] in ("class",) or nm in f.module.classes:
                    return nm
                return nm
            return self._ret_type(f, e)
        return None

    def infer(self, f) -> Dict[str, str]:
        """local name -> NamedTuple class, for names that hold that class on every definition"""
        node = f.node
        prev_cand: Dict[str, set] = {}
        prev_cont: Dict[str, set] = {}
        stmts = [s for s in ast.walk(node) if isinstance(s, (ast.Assign, ast.AnnAssign, ast.For, ast.Expr, ast.AugAssign, ast.With, ast.comprehension))]
        for _round in range(3):
            cand: Dict[str, set] = {}
            containers: Dict[str, set] = {}

            def note(d, name, t):
                d.setdefault(name, set()).add(t)

            def tof(e):
                return self.type_of(f, e, prev_cand, prev_cont)

            a = node.args
            for arg in a.posonlyargs + a.args + a.kwonlyargs:
                names = _ann_names(arg.annotation)
                if names and names[0] in self.types:
                    note(cand, arg.arg, names[0])
                elif any(n in self.types for n in names):
                    note(containers, arg.arg, [n for n in names if n in self.types][0])
                else:
                    note(cand, arg.arg, None)
            for s in stmts:
                if isinstance(s, ast.AnnAssign) and isinstance(s.target, ast.Name):
                    names = _ann_names(s.annotation)
                    if names and names[0] in self.types:
                        note(cand, s.target.id, names[0])
                    elif any(n in self.types for n in names):
                        note(containers, s.target.id, [n for n in names if n in self.types][0])
                        note(cand, s.target.id, None)
                    elif s.value is not None:
                        note(cand, s.target.id, tof(s.value))
                elif isinstance(s, ast.Assign):
                    for tgt in s.targets:
                        if isinstance(tgt, ast.Name):
                            note(cand, tgt.id, tof(s.value))
                        elif isinstance(tgt, ast.Subscript) and isinstance(tgt.value, ast.Name):
                            note(containers, tgt.value.id, tof(s.value))
                        elif isinstance(tgt, (ast.Tuple, ast.List)):
                            for e in ast.walk(tgt):
                                if isinstance(e, ast.Name):
                                    note(cand, e.id, None)
                elif isinstance(s, ast.AugAssign) and isinstance(s.target, ast.Name):
                    note(cand, s.target.id, None)
                elif isinstance(s, ast.Expr) and isinstance(s.value, ast.Call) and isinstance(s.value.func, ast.Attribute) and s.value.func.attr in ("append", "add") \
                        and isinstance(s.value.func.value, ast.Name) and len(s.value.args) == 1:
                    note(containers, s.value.func.value.id, tof(s.value.args[0]))
                elif isinstance(s, (ast.For, ast.comprehension)):
                    it, tgt = s.iter, s.target
                    et = None
                    kv = False
                    if isinstance(it, ast.Call) and isinstance(it.func, ast.Attribute) and isinstance(it.func.value, ast.Name) and it.func.attr in ("values", "items"):
                        cs = prev_cont.get(it.func.value.id, set())
                        et = next(iter(cs)) if len(cs) == 1 else None
                        kv = it.func.attr == "items"
                    elif isinstance(it, ast.Name):
                        cs = prev_cont.get(it.id, set())
                        et = next(iter(cs)) if len(cs) == 1 else None
                    if kv and isinstance(tgt, ast.Tuple) and len(tgt.elts) == 2:
                        if isinstance(tgt.elts[0], ast.Name):
                            note(cand, tgt.elts[0].id, None)
                        if isinstance(tgt.elts[1], ast.Name):
                            note(cand, tgt.elts[1].id, et)
                    elif isinstance(tgt, ast.Name):
                        note(cand, tgt.id, et if not kv else None)
                    else:
                        for e in ast.walk(tgt):
                            if isinstance(e, ast.Name):
                                note(cand, e.id, None)
            prev_cand, prev_cont = cand, containers
        cand, containers = prev_cand, prev_cont
        env = {}
        for name, ts in cand.items():
            if len(ts) == 1 and None not in ts:
                env[name] = next(iter(ts))
        self._containers = {k: next(iter(v)) for k, v in containers.items() if len(v) == 1 and None not in v}
        return env

    def type_of(self, f, e: ast.AST, cand, containers) -> Optional[str]:
        if isinstance(e, ast.Call):
            t = self._ctor(f, e)
            if t:
                return t
            if isinstance(e.func, ast.Attribute) and e.func.attr in ("get", "pop", "setdefault") and isinstance(e.func.value, ast.Name):
                cs = containers.get(e.func.value.id, set())
                return next(iter(cs)) if len(cs) == 1 and None not in cs else None
            return None
        if isinstance(e, ast.Name):
            ts = cand.get(e.id, set())
            return next(iter(ts)) if len(ts) == 1 and None not in ts else None
        if isinstance(e, ast.Subscript) and isinstance(e.value, ast.Name):
            cs = containers.get(e.value.id, set())
            return next(iter(cs)) if len(cs) == 1 and None not in cs else None
        return None

    # ---------------------------------------------------------------- rewriting
    def rewrite(self, f) -> bool:
        if not self.types:
            return False
        env = self.infer(f)
        containers = dict(self._containers)
        canon = self
        changed = [False]

        class T(ast.NodeTransformer):
            def visit_FunctionDef(self, n):
                if n is f.node:
                    self.generic_visit(n)
                return n

            visit_AsyncFunctionDef = visit_FunctionDef

            def visit_Lambda(self, n):
                return n

            def visit_Attribute(self, n):
                self.generic_visit(n)
                if not isinstance(n.ctx, ast.Load):
                    return n
                t = None
                v = n.value
                if isinstance(v, ast.Name):
                    t = env.get(v.id)
                elif isinstance(v, ast.Subscript) and isinstance(v.value, ast.Name):
                    t = containers.get(v.value.id)
                elif isinstance(v, ast.Call):
                    t = canon._ret_type(f, v)
                if t and n.attr in canon.types[t]:
                    changed[0] = True
                    return ast.copy_location(ast.Subscript(value=v, slice=ast.Constant(value=canon.types[t].index(n.attr)), ctx=ast.Load()), n)
                return n

            def _unrolled(self, n):
                """elements of a comprehension over a value of a private NamedTuple type (fixed, known length), or None"""
                if len(n.generators) != 1:
                    return None
                g = n.generators[0]
                if g.ifs or g.is_async or not isinstance(g.target, ast.Name) or not isinstance(g.iter, ast.Name):
                    return None
                t = env.get(g.iter.id)
                if not t:
                    return None
                import copy as _copy

                out = []
                for i in range(len(canon.types[t])):
                    class S(ast.NodeTransformer):
                        def visit_Name(self, m):
                            if m.id == g.target.id and isinstance(m.ctx, ast.Load):
                                return ast.copy_location(ast.Subscript(value=ast.Name(id=g.iter.id, ctx=ast.Load()), slice=ast.Constant(value=i), ctx=ast.Load()), m)
                            return m

                    out.append(S().visit(_copy.deepcopy(n.elt)))
                return out

            def visit_ListComp(self, n):
                self.generic_visit(n)
                elts = self._unrolled(n)
                if elts is None:
                    return n
                changed[0] = True
                return ast.copy_location(ast.List(elts=elts, ctx=ast.Load()), n)

            def visit_Call(self, n):
                # a generator over a NamedTuple value consumed by an eager, order-insensitive-to-laziness builtin
                if isinstance(n.func, ast.Name) and n.func.id in ("max", "min", "sum", "tuple", "list", "set", "sorted", "len") and len(n.args) == 1 and isinstance(n.args[0], ast.GeneratorExp):
                    self.generic_visit(n.args[0])
                    elts = self._unrolled(n.args[0])
                    if elts is not None:
                        changed[0] = True
                        n.args = [ast.copy_location(ast.Tuple(elts=elts, ctx=ast.Load()), n.args[0])]
                self.generic_visit(n)
                nm = n.func.id if isinstance(n.func, ast.Name) else None
                if nm in canon.types and len(n.args) == 1 and isinstance(n.args[0], ast.Starred) and not n.keywords:
                    # T(*[a, b, c]) / T(*name): the components in order (a wrong length raises TypeError in both readings)
                    sv = n.args[0].value
                    k = len(canon.types[nm])
                    if isinstance(sv, (ast.List, ast.Tuple)) and len(sv.elts) == k and not any(isinstance(e_, ast.Starred) for e_ in sv.elts):
                        changed[0] = True
                        return ast.copy_location(ast.Tuple(elts=list(sv.elts), ctx=ast.Load()), n)
                    if isinstance(sv, ast.Name):
                        changed[0] = True
                        return ast.copy_location(ast.Tuple(elts=[ast.Subscript(value=ast.Name(id=sv.id, ctx=ast.Load()), slice=ast.Constant(value=i), ctx=ast.Load()) for i in range(k)], ctx=ast.Load()), n)
                if nm in canon.types and not any(isinstance(a, ast.Starred) for a in n.args) and not any(k.arg is None for k in n.keywords):
                    fields = canon.types[nm]
                    vals: List[Optional[ast.AST]] = list(n.args) + [None] * (len(fields) - len(n.args))
                    ok = len(n.args) <= len(fields)
                    for k in n.keywords:
                        if k.arg in fields and vals[fields.index(k.arg)] is None:
                            vals[fields.index(k.arg)] = k.value
                        else:
                            ok = False
                    if ok and all(v is not None for v in vals):
                        changed[0] = True
                        return ast.copy_location(ast.Tuple(elts=vals, ctx=ast.Load()), n)
                return n

        # x = T(*g(..))  ->  tmp = g(..); x = T(*tmp)   (the constructor name is loaded before g is called, which has no effect)
        lifted = [0]

        def lift(stmts) -> None:
            i = 0
            while i < len(stmts):
                st = stmts[i]
                v = getattr(st, "value", None) if isinstance(st, (ast.Assign, ast.AnnAssign, ast.Return)) else None
                if isinstance(v, ast.Call) and isinstance(v.func, ast.Name) and v.func.id in canon.types and len(v.args) == 1 and not v.keywords \
                        and isinstance(v.args[0], ast.Starred) and isinstance(v.args[0].value, ast.Call):
                    lifted[0] += 1
                    tmp = f"fields__n{getattr(st, 'lineno', 0)}_{lifted[0]}"
                    asg = ast.copy_location(ast.Assign(targets=[ast.Name(id=tmp, ctx=ast.Store())], value=v.args[0].value), st)
                    v.args[0].value = ast.copy_location(ast.Name(id=tmp, ctx=ast.Load()), v)
                    ast.fix_missing_locations(asg)
                    stmts[i:i + 1] = [asg, st]
                    changed[0] = True
                    i += 2
                    continue
                for fld in ("body", "orelse", "finalbody"):
                    sub = getattr(st, fld, None)
                    if isinstance(sub, list) and sub and isinstance(sub[0], ast.stmt) and not isinstance(st, (ast.FunctionDef, ast.AsyncFunctionDef, ast.ClassDef)):
                        lift(sub)
                for h in getattr(st, "handlers", []) or []:
                    lift(h.body)
                i += 1

        lift(f.node.body)
        T().visit(f.node)
        # a typed local that is only ever indexed is the unpacked tuple:  g = e; .. g[0] .. g[2]  ->  g__0, g__1, g__2 = e; .. g__0 .. g__2
        for name, t in sorted(env.items()):
            n_fields = len(canon.types[t])
            if name in {a_.arg for a_ in f.node.args.posonlyargs + f.node.args.args + f.node.args.kwonlyargs}:
                continue
            parents = {}
            for p_ in ast.walk(f.node):
                for ch in ast.iter_child_nodes(p_):
                    parents[id(ch)] = p_
            ok = True
            defs, uses = [], []
            for x in ast.walk(f.node):
                if isinstance(x, ast.Name) and x.id == name:
                    par = parents.get(id(x))
                    if isinstance(x.ctx, ast.Store):
                        if isinstance(par, ast.Assign) and len(par.targets) == 1 and par.targets[0] is x:
                            defs.append(par)
                        elif isinstance(par, ast.AnnAssign) and par.target is x and par.value is not None:
                            defs.append(par)
                        else:
                            ok = False
                    elif isinstance(par, ast.Subscript) and par.value is x and isinstance(par.slice, ast.Constant) and isinstance(par.slice.value, int) and 0 <= par.slice.value < n_fields \
                            and isinstance(par.ctx, ast.Load):
                        uses.append(par)
                    else:
                        ok = False
            if not ok or not defs or not uses:
                continue
            use_ids = {id(u): u for u in uses}

            class U(ast.NodeTransformer):
                def visit_Subscript(self, n):
                    if id(n) in use_ids:
                        return ast.copy_location(ast.Name(id=f"{name}__{n.slice.value}", ctx=ast.Load()), n)
                    self.generic_visit(n)
                    return n

                def visit_Assign(self, n):
                    self.generic_visit(n)
                    if any(n is d for d in defs):
                        n.targets = [ast.Tuple(elts=[ast.Name(id=f"{name}__{i}", ctx=ast.Store()) for i in range(n_fields)], ctx=ast.Store())]
                    return n

                def visit_AnnAssign(self, n):
                    self.generic_visit(n)
                    if any(n is d for d in defs):
                        return ast.copy_location(ast.Assign(targets=[ast.Tuple(elts=[ast.Name(id=f"{name}__{i}", ctx=ast.Store()) for i in range(n_fields)], ctx=ast.Store())], value=n.value), n)
                    return n

            U().visit(f.node)
            changed[0] = True
        # annotations that only name the NamedTuple are irrelevant for the model: keep them
        if changed[0]:
            ast.fix_missing_locations(f.node)
            self.log.append(f"{f.qualname}: NamedTuple accesses rewritten as tuple indices")
        return changed[0]


def canonicalise_namedtuples(prog: Program) -> None:
    c = _Canon(prog)
    if not c.types:
        return
    for f in list(prog.all_functions(include_inlined=True)):
        try:
            c.rewrite(f)
        except RecursionError:  # pragma: no cover
            continue
    prog.inline_log = list(getattr(prog, "inline_log", [])) + c.log
