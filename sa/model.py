"""E1 program model: modules, imports, classes (MRO), functions, call resolution.

Everything is computed from the source text of <root>/robotools/**/*.py (test_*.py
excluded).  Nothing is imported or executed.
"""
from __future__ import annotations

import ast
import os
from dataclasses import dataclass, field
from typing import Dict, Iterable, List, Optional, Tuple

PKG = "robotools"

BUILTINS = {
    "len", "zip", "enumerate", "range", "list", "tuple", "set", "dict", "sorted", "sum", "max", "min",
    "map", "isinstance", "float", "int", "str", "bool", "any", "all", "open", "round", "abs", "callable",
    "type", "super", "print", "reversed", "iter", "next", "repr", "chr", "ord", "frozenset", "filter",
    "hasattr", "getattr", "issubclass", "id", "divmod", "format", "slice", "bytes", "object",
}
EXC_BUILTINS = {
    "Exception", "ValueError", "TypeError", "KeyError", "IndexError", "AssertionError", "NotImplementedError",
    "RuntimeError", "AttributeError", "BaseException", "ArithmeticError", "ZeroDivisionError", "OSError",
    "LookupError", "StopIteration", "DeprecationWarning", "UserWarning", "Warning",
}
EXC_PARENTS = {
    "Exception": ["BaseException"], "ValueError": ["Exception"], "TypeError": ["Exception"],
    "LookupError": ["Exception"], "KeyError": ["LookupError"], "IndexError": ["LookupError"],
    "AssertionError": ["Exception"], "RuntimeError": ["Exception"], "NotImplementedError": ["RuntimeError"],
    "AttributeError": ["Exception"], "ArithmeticError": ["Exception"], "ZeroDivisionError": ["ArithmeticError"],
    "OSError": ["Exception"], "BaseException": [],
}


class AnalysisInconclusive(Exception):
    """The code has a shape the analysis cannot reason about (never a violation)."""

    def __init__(self, rule: str, where: str, why: str):
        super().__init__(f"{rule} at {where}: {why}")
        self.rule, self.where, self.why = rule, where, why


@dataclass
class FunctionInfo:
    module: "ModuleInfo"
    cls: Optional["ClassInfo"]
    node: ast.FunctionDef

    @property
    def name(self) -> str:
        return self.node.name

    @property
    def qualname(self) -> str:
        q = f"{self.cls.name}.{self.node.name}" if self.cls else self.node.name
        return f"{self.module.name}:{q}"

    @property
    def short(self) -> str:
        return f"{self.cls.name}.{self.node.name}" if self.cls else self.node.name

    @property
    def params(self) -> List[str]:
        a = self.node.args
        names = [x.arg for x in a.posonlyargs + a.args + a.kwonlyargs]
        if a.vararg:
            names.append(a.vararg.arg)
        if a.kwarg:
            names.append(a.kwarg.arg)
        return names

    def param_annotation(self, name: str) -> Optional[ast.AST]:
        a = self.node.args
        for x in a.posonlyargs + a.args + a.kwonlyargs:
            if x.arg == name:
                return x.annotation
        return None

    def param_default(self, name: str) -> Optional[ast.AST]:
        a = self.node.args
        pos = a.posonlyargs + a.args
        defaults = [None] * (len(pos) - len(a.defaults)) + list(a.defaults)
        for x, d in zip(pos, defaults):
            if x.arg == name:
                return d
        for x, d in zip(a.kwonlyargs, a.kw_defaults):
            if x.arg == name:
                return d
        return None

    @property
    def is_property(self) -> bool:
        return any(isinstance(d, ast.Name) and d.id == "property" for d in self.node.decorator_list)

    def where(self, node: Optional[ast.AST] = None) -> str:
        ln = getattr(node, "lineno", self.node.lineno)
        return f"{self.module.relpath}:{ln} ({self.short})"


@dataclass
class ClassInfo:
    module: "ModuleInfo"
    node: ast.ClassDef
    base_exprs: List[ast.AST]
    methods: Dict[str, FunctionInfo] = field(default_factory=dict)
    class_assigns: Dict[str, ast.AST] = field(default_factory=dict)
    bases: List[object] = field(default_factory=list)  # ClassInfo or str (external dotted)

    @property
    def name(self) -> str:
        return self.node.name

    @property
    def qualname(self) -> str:
        return f"{self.module.name}:{self.node.name}"


@dataclass
class ModuleInfo:
    name: str
    path: str
    relpath: str
    tree: ast.Module
    source: str
    imports: Dict[str, str] = field(default_factory=dict)  # local name -> dotted target
    functions: Dict[str, FunctionInfo] = field(default_factory=dict)
    classes: Dict[str, ClassInfo] = field(default_factory=dict)
    assigns: Dict[str, ast.AST] = field(default_factory=dict)


@dataclass
class Callee:
    """Result of resolving a call."""

    kind: str  # 'func' (package function/method) | 'class' (constructor) | 'ext' (dotted external) | 'method' (external method name on unknown receiver) | 'unknown'
    func: Optional[FunctionInfo] = None
    cls: Optional[ClassInfo] = None
    name: str = ""  # dotted name for ext, attribute name for method

    def __repr__(self) -> str:
        if self.kind == "func":
            return f"<{self.func.qualname}>"
        if self.kind == "class":
            return f"<class {self.cls.qualname if self.cls else self.name}>"
        return f"<{self.kind} {self.name}>"


class Program:
    def __init__(self, root: str):
        self.root = os.path.abspath(root)
        self.modules: Dict[str, ModuleInfo] = {}
        self.inlined_helpers: set = set()
        self.inline_log: List[str] = []
        self._load()
        self._link()
        if os.environ.get("VERIF_SA_NO_INLINE") != "1":
            from .lower import lower_program

            lower_program(self)
            from .ntuple import canonicalise_namedtuples

            canonicalise_namedtuples(self)
            from .inline import inline_new_helpers

            inline_new_helpers(self)

    # ------------------------------------------------------------------ loading
    def _load(self) -> None:
        pkgdir = os.path.join(self.root, PKG)
        if not os.path.isdir(pkgdir):
            raise AnalysisInconclusive("model", pkgdir, "package directory not found")
        for dirpath, dirnames, filenames in os.walk(pkgdir):
            dirnames[:] = sorted(d for d in dirnames if d != "__pycache__")
            for fn in sorted(filenames):
                if not fn.endswith(".py") or fn.startswith("test_") or fn == "conftest.py":
                    continue
                path = os.path.join(dirpath, fn)
                rel = os.path.relpath(path, self.root)
                parts = rel[:-3].split(os.sep)
                if parts[-1] == "__init__":
                    parts = parts[:-1]
                name = ".".join(parts)
                with open(path, encoding="utf-8") as f:
                    src = f.read()
                tree = ast.parse(src, filename=path)
                self.modules[name] = ModuleInfo(name=name, path=path, relpath=rel, tree=tree, source=src)

    def _is_pkg(self, modname: str) -> bool:
        m = self.modules.get(modname)
        return bool(m and m.path.endswith("__init__.py"))

    def _link(self) -> None:
        for m in self.modules.values():
            for stmt in m.tree.body:
                self._scan_toplevel(m, stmt)
        for m in self.modules.values():
            for c in m.classes.values():
                c.bases = [self._resolve_base(m, b) for b in c.base_exprs]
        # module-level constants written as closed expressions are read as their literal (sa/constfold.py)
        from .constfold import fold_module

        for m in self.modules.values():
            top: Dict[str, int] = {}
            for n in ast.walk(m.tree):
                # names bound more than once anywhere in the module (re-assigned, `global`) keep their written value
                if isinstance(n, ast.Name) and isinstance(n.ctx, (ast.Store, ast.Del)) and n.id in m.assigns:
                    top[n.id] = top.get(n.id, 0) + 1
                elif isinstance(n, ast.Global):
                    for g_ in n.names:
                        top[g_] = top.get(g_, 0) + 2
            fold_module(m.assigns, multiply_bound={k for k, v in top.items() if v > 1})

    def _scan_toplevel(self, m: ModuleInfo, stmt: ast.stmt) -> None:
        if isinstance(stmt, ast.Import):
            for a in stmt.names:
                local = a.asname or a.name.split(".")[0]
                m.imports[local] = a.name if a.asname else a.name.split(".")[0]
        elif isinstance(stmt, ast.ImportFrom):
            base = stmt.module or ""
            if stmt.level:
                pkgparts = m.name.split(".")
                if not self._is_pkg(m.name):
                    pkgparts = pkgparts[:-1]
                pkgparts = pkgparts[: len(pkgparts) - (stmt.level - 1)]
                base = ".".join(pkgparts + ([stmt.module] if stmt.module else []))
            for a in stmt.names:
                m.imports[a.asname or a.name] = f"{base}.{a.name}"
        elif isinstance(stmt, (ast.FunctionDef, ast.AsyncFunctionDef)):
            m.functions[stmt.name] = FunctionInfo(m, None, stmt)
        elif isinstance(stmt, ast.ClassDef):
            c = ClassInfo(m, stmt, list(stmt.bases))
            for s in stmt.body:
                if isinstance(s, (ast.FunctionDef, ast.AsyncFunctionDef)):
                    c.methods[s.name] = FunctionInfo(m, c, s)
                elif isinstance(s, ast.Assign):
                    for t in s.targets:
                        if isinstance(t, ast.Name):
                            c.class_assigns[t.id] = s.value
                elif isinstance(s, ast.AnnAssign) and isinstance(s.target, ast.Name) and s.value is not None:
                    c.class_assigns[s.target.id] = s.value
            m.classes[stmt.name] = c
        elif isinstance(stmt, ast.Assign):
            for t in stmt.targets:
                if isinstance(t, ast.Name):
                    m.assigns[t.id] = stmt.value
        elif isinstance(stmt, ast.AnnAssign) and isinstance(stmt.target, ast.Name) and stmt.value is not None:
            m.assigns[stmt.target.id] = stmt.value
        elif isinstance(stmt, (ast.If, ast.Try)):
            for s in ast.iter_child_nodes(stmt):
                if isinstance(s, ast.stmt):
                    self._scan_toplevel(m, s)

    # ------------------------------------------------------------- name lookup
    def lookup_dotted(self, dotted: str, _depth: int = 0):
        """Resolve a dotted path to ModuleInfo / ClassInfo / FunctionInfo / ('ext', dotted) / ('value', ModuleInfo, name)."""
        if _depth > 12:
            return ("ext", dotted)
        if dotted in self.modules:
            return self.modules[dotted]
        if "." in dotted:
            head, last = dotted.rsplit(".", 1)
            owner = self.lookup_dotted(head, _depth + 1)
            if isinstance(owner, ModuleInfo):
                if last in owner.functions:
                    return owner.functions[last]
                if last in owner.classes:
                    return owner.classes[last]
                if last in owner.imports:
                    return self.lookup_dotted(owner.imports[last], _depth + 1)
                if last in owner.assigns:
                    return ("value", owner, last)
                sub = f"{owner.name}.{last}"
                if sub in self.modules:
                    return self.modules[sub]
                return ("ext", dotted)
            if isinstance(owner, ClassInfo):
                f = self.find_method(owner, last)
                if f:
                    return f
                if last in owner.class_assigns:
                    return ("classvalue", owner, last)
                return ("ext", dotted)
            if isinstance(owner, tuple) and owner[0] == "ext":
                return ("ext", f"{owner[1]}.{last}")
            return ("ext", dotted)
        return ("ext", dotted)

    def resolve_name(self, m: ModuleInfo, name: str):
        if name in m.functions:
            return m.functions[name]
        if name in m.classes:
            return m.classes[name]
        if name in m.imports:
            return self.lookup_dotted(m.imports[name])
        if name in m.assigns:
            return ("value", m, name)
        if name in BUILTINS or name in EXC_BUILTINS:
            return ("ext", f"builtins.{name}")
        return None

    def resolve_expr_static(self, m: ModuleInfo, e: ast.AST):
        """Resolve Name / dotted Attribute chains that denote modules, classes, functions."""
        if isinstance(e, ast.Name):
            return self.resolve_name(m, e.id)
        if isinstance(e, ast.Attribute):
            owner = self.resolve_expr_static(m, e.value)
            if isinstance(owner, ModuleInfo):
                return self.lookup_dotted(f"{owner.name}.{e.attr}")
            if isinstance(owner, ClassInfo):
                f = self.find_method(owner, e.attr)
                if f:
                    return f
                if e.attr in owner.class_assigns:
                    return ("classvalue", owner, e.attr)
                for c in self.mro(owner):
                    if not isinstance(c, ClassInfo):
                        continue
                    if e.attr in c.class_assigns:
                        return ("classvalue", c, e.attr)
                return None
            if isinstance(owner, tuple) and owner[0] == "ext":
                return ("ext", f"{owner[1]}.{e.attr}")
        return None

    def _resolve_base(self, m: ModuleInfo, b: ast.AST):
        r = self.resolve_expr_static(m, b)
        if isinstance(r, ClassInfo):
            return r
        if isinstance(r, tuple) and r[0] == "ext":
            return r[1]
        return ast.unparse(b)

    # --------------------------------------------------------------- class api
    def mro(self, c: ClassInfo) -> List[object]:
        """Linearisation (sufficient for the single-inheritance + mixin shapes in this package)."""
        out: List[object] = []

        def visit(k):
            if k in out:
                return
            out.append(k)
            if isinstance(k, ClassInfo):
                for b in k.bases:
                    visit(b)
            elif isinstance(k, str):
                short = k.split(".")[-1]
                for p in EXC_PARENTS.get(short, []):
                    visit(f"builtins.{p}")

        visit(c)
        return out

    def mro_names(self, c: ClassInfo) -> List[str]:
        return [k.name if isinstance(k, ClassInfo) else k.split(".")[-1] for k in self.mro(c)]

    def find_method(self, c: ClassInfo, name: str) -> Optional[FunctionInfo]:
        for k in self.mro(c):
            if isinstance(k, ClassInfo) and name in k.methods:
                return k.methods[name]
        return None

    def class_by_name(self, name: str) -> Optional[ClassInfo]:
        hits = [c for m in self.modules.values() for c in m.classes.values() if c.name == name]
        return hits[0] if len(hits) == 1 else None

    def subclasses(self, c: ClassInfo) -> List[ClassInfo]:
        return [k for m in self.modules.values() for k in m.classes.values() if k is not c and c in self.mro(k)]

    def all_functions(self, include_inlined: bool = False) -> Iterable[FunctionInfo]:
        """Functions of the package; new helpers whose every call site was expanded into the caller (sa/inline.py) are
        left out unless asked for - their statements are analysed where they were expanded."""
        for m in self.modules.values():
            for f in m.functions.values():
                if include_inlined or f.qualname not in self.inlined_helpers:
                    yield f
            for c in m.classes.values():
                for f in c.methods.values():
                    if include_inlined or f.qualname not in self.inlined_helpers:
                        yield f

    def func(self, qual: str) -> Optional[FunctionInfo]:
        """'robotools.worklists.base:BaseWorklist.aspirate' or 'Labware.add' (unique short name)."""
        if ":" in qual:
            for f in self.all_functions():
                if f.qualname == qual:
                    return f
            return None
        hits = [f for f in self.all_functions() if f.short == qual]
        if len(hits) > 1 and "." not in qual:
            # several module-level functions of that name: the one the package exports at its top level is the one users call
            root = self.modules.get(PKG)
            r = self.resolve_name(root, qual) if root is not None else None
            if isinstance(r, FunctionInfo) and any(r is h for h in hits):
                return r
        return hits[0] if len(hits) == 1 else None

    def require_func(self, qual: str, rule: str) -> FunctionInfo:
        f = self.func(qual)
        if f is None:
            raise AnalysisInconclusive(rule, qual, "anchor function not found (renamed, moved or ambiguous)")
        return f

    def require_class(self, name: str, rule: str) -> ClassInfo:
        c = self.class_by_name(name)
        if c is None:
            raise AnalysisInconclusive(rule, name, "anchor class not found (renamed or ambiguous)")
        return c

    # ------------------------------------------------------------ typing hints
    def annotation_class(self, m: ModuleInfo, ann: Optional[ast.AST]) -> Optional[ClassInfo]:
        if ann is None:
            return None
        if isinstance(ann, ast.Constant) and isinstance(ann.value, str):
            try:
                ann = ast.parse(ann.value, mode="eval").body
            except SyntaxError:
                return None
        if isinstance(ann, ast.Subscript):
            base = ann.value
            bname = base.attr if isinstance(base, ast.Attribute) else getattr(base, "id", "")
            if bname == "Optional":
                return self.annotation_class(m, ann.slice)
            return None
        r = self.resolve_expr_static(m, ann)
        return r if isinstance(r, ClassInfo) else None

    def local_types(self, f: FunctionInfo, concrete: Optional[ClassInfo] = None) -> Dict[str, ClassInfo]:
        """Parameter name -> package class (from annotations; `self` -> concrete or defining class)."""
        env: Dict[str, ClassInfo] = {}
        for p in f.params:
            c = self.annotation_class(f.module, f.param_annotation(p))
            if c is not None:
                env[p] = c
        if f.cls is not None and f.params and not any(
            isinstance(d, ast.Name) and d.id == "staticmethod" for d in f.node.decorator_list
        ):
            env[f.params[0]] = concrete or f.cls
        # locals that can only hold objects of one known class: plain copies of typed names and loop variables over a
        # display of typed names (`for labware in [source, destination]`, also through a single-definition list name)
        stores: Dict[str, List[ast.AST]] = {}
        for n in ast.walk(f.node):
            if isinstance(n, ast.Name) and isinstance(n.ctx, ast.Store):
                stores.setdefault(n.id, []).append(n)
        assigns: Dict[str, ast.AST] = {}
        loops: Dict[str, ast.AST] = {}
        for n in ast.walk(f.node):
            if isinstance(n, ast.Assign) and len(n.targets) == 1 and isinstance(n.targets[0], ast.Name) and len(stores.get(n.targets[0].id, [])) == 1:
                assigns[n.targets[0].id] = n.value
            elif isinstance(n, ast.For) and isinstance(n.target, ast.Name) and len(stores.get(n.target.id, [])) == 1:
                loops[n.target.id] = n.iter

        def cls_of(e, depth=0):
            if depth > 4:
                return None
            if isinstance(e, ast.Name):
                if e.id in env:
                    return env[e.id]
                if e.id in assigns and e.id not in f.params:
                    return cls_of(assigns[e.id], depth + 1)
            return None

        def elem_cls(e, depth=0):
            if depth > 4:
                return None
            if isinstance(e, (ast.List, ast.Tuple)) and e.elts:
                cs = [cls_of(x, depth + 1) for x in e.elts]
                return cs[0] if cs[0] is not None and all(c is cs[0] for c in cs) else None
            if isinstance(e, ast.IfExp):
                a, b = elem_cls(e.body, depth + 1), elem_cls(e.orelse, depth + 1)
                return a if a is not None and a is b else None
            if isinstance(e, ast.Name) and e.id in assigns and e.id not in f.params:
                return elem_cls(assigns[e.id], depth + 1)
            return None

        for name, it in loops.items():
            if name not in env and name not in f.params:
                c = elem_cls(it)
                if c is not None:
                    env[name] = c
        for name, v in assigns.items():
            if name not in env and name not in f.params and isinstance(v, ast.Name):
                c = cls_of(v)
                if c is not None:
                    env[name] = c
        return env

    # --------------------------------------------------------- call resolution
    def resolve_call(self, f: FunctionInfo, call: ast.Call, env: Optional[Dict[str, ClassInfo]] = None) -> Callee:
        env = env if env is not None else self.local_types(f)
        fn = call.func
        # super().m(...)
        if (
            isinstance(fn, ast.Attribute)
            and isinstance(fn.value, ast.Call)
            and isinstance(fn.value.func, ast.Name)
            and fn.value.func.id == "super"
            and f.cls is not None
        ):
            start = False
            selfcls = env.get(f.params[0], f.cls) if f.params else f.cls
            for k in self.mro(selfcls):
                if start and isinstance(k, ClassInfo) and fn.attr in k.methods:
                    return Callee("func", func=k.methods[fn.attr])
                if k is f.cls:
                    start = True
            return Callee("ext", name=f"super.{fn.attr}")
        if isinstance(fn, ast.Name):
            if fn.id in env:  # calling a parameter
                return Callee("unknown", name=fn.id)
            r = self.resolve_name(f.module, fn.id)
            return self._callee_of(r, fn.id)
        if isinstance(fn, ast.Attribute):
            # receiver is a typed local?
            if isinstance(fn.value, ast.Name) and fn.value.id in env:
                c = env[fn.value.id]
                meth = self.find_method(c, fn.attr)
                if meth:
                    return Callee("func", func=meth)
                names = self.mro_names(c)
                if "list" in names and fn.attr in {"append", "clear", "extend", "insert", "pop", "remove", "sort"}:
                    return Callee("ext", name=f"list.{fn.attr}")
                return Callee("method", name=fn.attr)
            r = self.resolve_expr_static(f.module, fn)
            if r is not None:
                return self._callee_of(r, ast.unparse(fn))
            return Callee("method", name=fn.attr)
        return Callee("unknown", name=ast.unparse(fn))

    def _callee_of(self, r, text: str) -> Callee:
        if isinstance(r, FunctionInfo):
            return Callee("func", func=r)
        if isinstance(r, ClassInfo):
            init = self.find_method(r, "__init__")
            return Callee("class", cls=r, func=init)
        if isinstance(r, tuple) and r[0] == "ext":
            return Callee("ext", name=r[1])
        return Callee("unknown", name=text)


def ext_name(callee: Callee) -> str:
    """Normalised dotted name of an external callee ('numpy.array', 'builtins.len', 'math.ceil')."""
    return callee.name if callee.kind == "ext" else ""
