"""E9 sibling differ: canonicalise two functions and compare them statement by statement."""
from __future__ import annotations

import ast
import copy
from typing import Callable, Dict, List, Optional, Tuple

from .model import FunctionInfo, ModuleInfo, Program

NEG = {ast.Eq: ast.NotEq, ast.NotEq: ast.Eq, ast.Lt: ast.GtE, ast.GtE: ast.Lt, ast.Gt: ast.LtE, ast.LtE: ast.Gt,
       ast.Is: ast.IsNot, ast.IsNot: ast.Is, ast.In: ast.NotIn, ast.NotIn: ast.In}


class _Canon(ast.NodeTransformer):
    def __init__(self, prog: Program, f: FunctionInfo, drop: Optional[Callable[[ast.stmt], bool]] = None):
        self.prog, self.f, self.drop = prog, f, drop
        self.names: Dict[str, str] = {}
        self._nlocals = 0
        for i, p in enumerate(f.params):
            self.names[p] = f"p{i}"

    # --- names ---------------------------------------------------------------
    def _local(self, name: str) -> str:
        if name not in self.names:
            self.names[name] = f"v{self._nlocals}"
            self._nlocals += 1
        return self.names[name]

    def visit_Name(self, node: ast.Name):
        m = self.f.module
        if node.id in self.names:
            return ast.Name(id=self.names[node.id], ctx=ast.Load())
        if isinstance(node.ctx, (ast.Store, ast.Del)):
            return ast.Name(id=self._local(node.id), ctx=ast.Load())
        if node.id in m.imports:
            return ast.Name(id="@" + m.imports[node.id], ctx=ast.Load())
        return ast.Name(id=node.id, ctx=ast.Load())

    def visit_Attribute(self, node: ast.Attribute):
        # module.attr chains -> dotted target
        r = self.prog.resolve_expr_static(self.f.module, node)
        from .model import ClassInfo, FunctionInfo as FI, ModuleInfo as MI

        if isinstance(r, (ClassInfo, FI)):
            return ast.Name(id="@" + r.qualname, ctx=ast.Load())
        if isinstance(r, tuple) and r[0] == "ext":
            return ast.Name(id="@" + r[1], ctx=ast.Load())
        node = self.generic_visit(node)
        node.ctx = ast.Load()
        return node

    def visit_Subscript(self, node):
        node = self.generic_visit(node)
        node.ctx = ast.Load()
        return node

    def visit_Tuple(self, node):
        node = self.generic_visit(node)
        node.ctx = ast.Load()
        return node

    def visit_List(self, node):
        node = self.generic_visit(node)
        node.ctx = ast.Load()
        return node

    def visit_arg(self, node: ast.arg):
        return ast.arg(arg=self.names.get(node.arg, node.arg), annotation=None)

    # --- expressions ---------------------------------------------------------
    def visit_Call(self, node: ast.Call):
        node = self.generic_visit(node)
        if node.keywords and all(k.arg is not None for k in node.keywords) and all(
                all(isinstance(x, (ast.Name, ast.Attribute, ast.Subscript, ast.Constant, ast.Load, ast.Tuple, ast.List, ast.UnaryOp, ast.USub)) for x in ast.walk(k.value)) for k in node.keywords):
            # keyword arguments that are plain loads can be written in any order
            node.keywords = sorted(node.keywords, key=lambda k: k.arg)
        return node

    def visit_UnaryOp(self, node: ast.UnaryOp):
        node = self.generic_visit(node)
        if isinstance(node.op, ast.Not) and isinstance(node.operand, ast.Compare) and len(node.operand.ops) == 1 and type(node.operand.ops[0]) in NEG:
            c = node.operand
            return ast.Compare(left=c.left, ops=[NEG[type(c.ops[0])]()], comparators=c.comparators)
        return node

    def visit_comprehension_scoped(self, node):
        return self.generic_visit(node)

    # --- statements ----------------------------------------------------------
    def visit_Assert(self, node: ast.Assert):
        test = self.visit(ast.UnaryOp(op=ast.Not(), operand=node.test))
        return ast.If(test=test, body=[ast.Raise(exc=ast.Name(id="AssertionError", ctx=ast.Load()), cause=None)], orelse=[])

    def visit_Raise(self, node: ast.Raise):
        exc = node.exc
        if isinstance(exc, ast.Call):
            exc = exc.func
        if exc is not None:
            exc = self.visit(exc)
            if isinstance(exc, ast.Name) and exc.id.startswith("@"):
                exc = ast.Name(id=exc.id.split(":")[-1].split(".")[-1], ctx=ast.Load())
        return ast.Raise(exc=exc, cause=None)

    def visit_AnnAssign(self, node: ast.AnnAssign):
        if node.value is None:
            return None
        return self.visit(ast.Assign(targets=[node.target], value=node.value))

    def visit_Expr(self, node: ast.Expr):
        if isinstance(node.value, ast.Constant) and isinstance(node.value.value, str):
            return None  # docstring
        v = node.value
        if isinstance(v, ast.Call) and isinstance(v.func, ast.Attribute) and v.func.attr in ("debug", "info", "warning", "error", "exception", "critical", "log") \
                and isinstance(v.func.value, ast.Name) and v.func.value.id in ("logger", "logging", "log", "_logger", "_log", "LOGGER") \
                and not any(isinstance(x, (ast.Call, ast.NamedExpr, ast.Await, ast.Yield)) for a in list(v.args) + [k.value for k in v.keywords] for x in ast.walk(a)):
            return None  # a log message (its arguments are plain loads): what the siblings report about themselves is no difference
        return self.generic_visit(node)

    def visit_Return(self, node: ast.Return):
        node = self.generic_visit(node)
        if node.value is None or (isinstance(node.value, ast.Constant) and node.value.value is None):
            return ast.Return(value=None)
        return node

    def visit_If(self, node: ast.If):
        if self.drop is not None and self.drop(node):
            return None
        return self.generic_visit(node)

    def generic_visit(self, node):
        if isinstance(node, (ast.ListComp, ast.SetComp, ast.GeneratorExp, ast.DictComp)):
            # bind generator targets first (so element expressions see the renamed targets)
            for g in node.generators:
                g.iter = self.visit(g.iter)
                g.target = self.visit(g.target)
                g.ifs = [self.visit(i) for i in g.ifs]
            if isinstance(node, ast.DictComp):
                node.key = self.visit(node.key)
                node.value = self.visit(node.value)
            else:
                node.elt = self.visit(node.elt)
            return node
        return super().generic_visit(node)


def canonical_body(prog: Program, f: FunctionInfo, drop: Optional[Callable[[ast.stmt], bool]] = None) -> List[ast.stmt]:
    fn = copy.deepcopy(f.node)
    c = _Canon(prog, f, drop)
    out: List[ast.stmt] = []
    for s in fn.body:
        r = c.visit(s)
        if r is None:
            continue
        out += r if isinstance(r, list) else [r]
    # a trailing bare return is noise
    while out and isinstance(out[-1], ast.Return) and out[-1].value is None:
        out.pop()
    return out


def dump(s: ast.AST) -> str:
    return ast.dump(s, annotate_fields=False, include_attributes=False)


def first_difference(a: List[ast.stmt], b: List[ast.stmt], path: str = "") -> Optional[Tuple[str, Optional[ast.stmt], Optional[ast.stmt]]]:
    """Locate the first differing (innermost) statement pair."""
    for i in range(max(len(a), len(b))):
        sa = a[i] if i < len(a) else None
        sb = b[i] if i < len(b) else None
        if sa is None or sb is None:
            return (f"{path}[{i}]", sa, sb)
        if dump(sa) == dump(sb):
            continue
        if type(sa) is type(sb):
            # descend into compound statements whose headers agree
            for fld in ("body", "orelse", "finalbody"):
                ba, bb = getattr(sa, fld, None), getattr(sb, fld, None)
                if isinstance(ba, list) and isinstance(bb, list) and ba and bb is not None and all(isinstance(x, ast.stmt) for x in ba + bb):
                    header_a = _header(sa)
                    header_b = _header(sb)
                    if header_a == header_b:
                        d = first_difference(ba, bb, f"{path}[{i}].{fld}")
                        if d is not None:
                            return d
            if _header(sa) == _header(sb) and not any(isinstance(getattr(sa, fld, None), list) and getattr(sa, fld) for fld in ("body",)):
                pass
        return (f"{path}[{i}]", sa, sb)
    return None


def _header(s: ast.stmt) -> str:
    c = copy.copy(s)
    for fld in ("body", "orelse", "finalbody", "handlers"):
        if hasattr(c, fld):
            setattr(c, fld, [])
    return dump(c)


def show_stmt(s: Optional[ast.stmt]) -> str:
    if s is None:
        return "<nothing>"
    try:
        txt = ast.unparse(s)
    except Exception:
        txt = dump(s)
    return " ".join(txt.split())[:160]
